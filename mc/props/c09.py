"""C09 - the command-line tools store exactly what the library pipeline computes (engine L).

Both tools are called in-process on every point of a Cartesian lattice

    tool x computer x pre-processors x post-processors x input container
         (inner: utterance set x configuration syntax)

and every stored matrix is compared with the *reference pipeline* built from the
NumPy classes by explicit construction (no alias factory, no torch modules):

    samples -> channel pick -> PreProcessor.apply in order -> compute_full (or the raw
    samples as a column) -> PostProcessor.apply in order -> float32

The samples are integer valued (int16 range) so that every container holds exactly the
same values (the utterance sets mono / mindur / rate / sweep also hold digital silence, a signal
preceded / followed by zero padding and - in the array containers of the torch tool - a float64
utterance of peak amplitude 1e-4: the value-dependent paths such as the floor of the logarithm); the reference reads them back with read_signal and cross-checks them with
what was written.  Utterances for which the reference pipeline itself raises (e.g.
Standardize on an empty matrix) are outside the property's domain: they are left out of
the input set and counted as skipped.

Further lattices use the same run_case / reference pipeline:

  banks    tool x EVERY bank class (real / analytic / complex responses; scaling functions and windows
           with non-default parameters) x computer kind and framing (STFT, SI) x (use_log, use_power,
           include_energy) x pre x post, as inline JSON and as a YAML file
  large    maps of 700 / 1300 utterances (map text beyond 64 / 128 KiB) and utterances of 2**16 -1, +0, +1
           and 2**17 + 1 samples through both tools
  seed     tool x computer x dither list x post x --seed in {0, 1, 7, 2**31-1}: same seed twice
           (dirty global generators) and as JSON / YAML files => identical bytes
  framing  tool x frame style (causal, centered, centered + kaldi_shift) x parity of the frame
           length x parity of the frame shift (STFT and SI) x post; one run holds an utterance of
           EVERY length from 0 (kaldi tool: 1) to 2L+2S samples
  options  boundary values of the options and the id alphabet: --channel (absent, -1, 0, 1),
           --file-prefix / --file-suffix (absent, non-empty, EMPTY), --preprocess / --postprocess
           (absent, an empty list), --min-duration (absent, 0, between
           two durations, exactly one utterance's duration), a map file whose last line has no
           newline, and utterance ids that are prefixes / suffixes / substrings of one another in both
           orders, look like numbers, differ in case only, or contain the default suffix
"""
import itertools
import json
import os
import shutil
import struct
import sys
import tempfile
import wave

import numpy as np

from .. import cfg, computers, core, sig

LEVEL = "exploration"
ASSUMPTIONS = [
    "reference pipeline uses the library's own NumPy classes (Preemphasize, FrameComputer."
    "compute_full, Deltas/Stack/Standardize .apply with default arguments), constructed "
    "explicitly; their own correctness is C02/C03/C15/C16/C18",
    "sample values: integer-valued generic signals (int16 range) so that wav/sph/npy/pt/npz/hdf5 "
    "hold identical data, plus all-zero, zero-padded (2L leading / trailing zeros) and - npy/pt/npz/hdf5 of the "
    "torch tool only - one float64 utterance of peak amplitude 1e-4; other amplitudes are not explored; pydrobert-kaldi is trusted to read the feature table and the wave table",
    "multi-channel inputs are (C, S) arrays for the torch tool and multi-channel wav files for the "
    "kaldi tool (its wave reader is channels-first); a stereo wav given to the torch tool is outside "
    "the property's domain; signals with L//2+1 <= N < L are not in the utterance sets (C14 leaves "
    "the torch port open there)",
    "dither cannot be compared with a reference (different generators): only same --seed => "
    "identical bytes and syntax independence are demanded for it",
    "--min-duration 0.125 s against utterances of 124 / 125 / 126 samples at 1000 Hz: 0.125 is exact in "
    "float32 (the Kaldi reader's duration) and float64, so 'duration < min' is decided identically; the "
    "harness refuses any other near-tie",
    "utterance ids: printable ASCII without white space (the only restriction of '<utt_id> <path>' "
    "lines and of Kaldi tables); the Kaldi wave reader refuses a wav without samples, so the length "
    "sweep of the kaldi tool starts at 1",
    "order of two Preemphasize filters is unobservable (they commute); order is made observable for "
    "the kaldi tool by a harness-defined non-linear PreProcessor and for post-processors by "
    "[deltas, stack]",
]

RATE = cfg.RATE

# ------------------------------------------------------------------ configurations

COMPUTERS = {
    # name -> configuration for cfg.make_computer (explicit construction)
    "stft_fbank": dict(kind="stft", bank="fbank", L=6, S=2, style="centered", kaldi=False,
                       window="hamming", pad=True, log=True, power=False, energy=False),
    "stft_gabor_e": dict(kind="stft", bank="gabor3", L=7, S=3, style="centered", kaldi=True,
                         window="hamming", pad=False, log=True, power=True, energy=True),
    "si_gabor": dict(kind="si", bank="gabor", S=2, style="causal", window="hamming", pad=True,
                     log=True, power=False, energy=False),
    # thorough only
    "stft_tri_causal": dict(kind="stft", bank="tri_an", L=5, S=2, style="causal", kaldi=False,
                            window=None, pad=True, log=False, power=False, energy=True),
    "si_gammatone_c": dict(kind="si", bank="gammatone", S=3, style="centered", window="hamming",
                           pad=False, log=True, power=True, energy=True),
    "stft_fbank_e": dict(kind="stft", bank="fbank", L=8, S=3, style="centered", kaldi=False,
                         window="hamming", pad=True, log=True, power=True, energy=True),
}

# framing lattice: frame style (incl. kaldi_shift) x parity of frame length x parity of frame shift.
# validity: kaldi_shift exists only for centered STFT frames; SI computers have no frame length
FRAME_STYLES = (("causal", False), ("centered", False), ("centered", True))
FRAME_LENGTHS = {"quick": (6, 7), "thorough": (5, 6, 7, 8)}
FRAME_SHIFTS = {"quick": (2, 3), "thorough": (2, 3, 4, 5)}


def framing_computers(tier):
    """registers the computers of the framing lattice in COMPUTERS; -> their names, in lattice order"""
    names = []
    for style, kaldi in FRAME_STYLES:
        for L in FRAME_LENGTHS[tier]:
            for S in FRAME_SHIFTS[tier]:
                n = "fr_stft_%s%s_L%d_S%d" % (style, "_kaldi" if kaldi else "", L, S)
                COMPUTERS[n] = dict(kind="stft", bank="fbank", L=L, S=S, style=style, kaldi=kaldi,
                                    window="hamming", pad=True, log=True, power=False, energy=True)
                names.append(n)
    for style, kaldi in FRAME_STYLES:
        if kaldi:
            continue
        for S in FRAME_SHIFTS[tier]:
            n = "fr_si_%s_S%d" % (style, S)
            COMPUTERS[n] = dict(kind="si", bank="gabor", S=S, style=style, window="hamming", pad=True,
                                log=True, power=False, energy=True)
            names.append(n)
    return names


framing_computers("thorough")       # a replay may name any of them

# banks lattice: EVERY bank class, with the flags that change the kind of its response (real / analytic /
# complex, zero-phase or not) and with non-default parameters of the objects nested in the configuration
# (scaling function, window), under every computer kind of both tools.
_BK = dict(num_filts=3, low_hz=0.0, sampling_rate=RATE)
BANK_VARIANTS = {
    "tri": dict(_BK, name="tri", scaling_function="mel"),
    "tri_an": dict(_BK, name="tri", scaling_function="bark", analytic=True),
    "tri_lin": dict(_BK, name="tri", scaling_function={"name": "linear", "low_hz": 10.0, "slope_hz": 0.5},
                    low_hz=20.0, high_hz=450.0),
    "fbank": dict(_BK, name="fbank"),
    "fbank_an": dict(_BK, name="fbank", analytic=True, num_filts=2, high_hz=400.0),
    "gabor": dict(_BK, name="gabor", scaling_function="mel"),
    "gabor_erb_l2": dict(_BK, name="gabor", scaling_function={"name": "linear", "low_hz": 0.0, "slope_hz": 3.0},
                         num_filts=2, erb=True, scale_l2_norm=True),
    "gammatone": dict(_BK, name="gammatone", scaling_function="mel"),
    "gammatone_mc": dict(_BK, name="gammatone", scaling_function={"name": "linear", "low_hz": 0.0},
                         num_filts=2, max_centered=True),
    "gammatone_o2": dict(_BK, name="gammatone", scaling_function={"name": "octave", "low_hz": 30.0},
                         low_hz=40.0, num_filts=2, order=2),
}
# computer shapes: kind, framing, window (one with non-default parameters)
BANK_SHAPES = {
    "stft_c": dict(kind="stft", L=6, S=2, style="centered", kaldi=False, window="hamming", pad=True),
    "stft_k": dict(kind="stft", L=8, S=3, style="centered", kaldi=True, window="hamming", pad=False),
    "stft_z": dict(kind="stft", L=7, S=3, style="causal", kaldi=False,
                   window={"name": "gamma", "order": 2, "peak": 0.6}, pad=True),
    "si_z": dict(kind="si", S=2, style="causal", window="hamming", pad=True),
    "si_c": dict(kind="si", S=3, style="centered", window={"name": "gamma", "order": 3, "peak": 0.7},
                 pad=False),
}
# (use_log, use_power, include_energy)
BANK_FLAGS = {"l": (True, False, False), "lpe": (True, True, True), "e": (False, False, True),
              "p": (False, True, False)}


def bank_computers():
    """registers the computers of the banks lattice in COMPUTERS; -> their names, in lattice order"""
    names = []
    for bn, bank in BANK_VARIANTS.items():
        for sn, shape in BANK_SHAPES.items():
            for fn, (log, power, energy) in BANK_FLAGS.items():
                n = "bk_%s_%s_%s" % (bn, sn, fn)
                COMPUTERS[n] = dict(shape, bank=dict(bank), log=log, power=power, energy=energy)
                names.append(n)
    return names


bank_computers()

# large inputs: a computer whose frames are long (so that a long signal has few frames) and the sizes of
# the `large` sub-check: signal lengths around 2**16 and 2**17 samples, maps of many utterances whose
# text crosses 64 KiB and 128 KiB (one line = 40-character id + path, about 105 characters)
COMPUTERS["lg_stft"] = dict(kind="stft", bank="fbank", L=100, S=50, style="centered", kaldi=False,
                            window="hamming", pad=True, log=True, power=False, energy=True)
LONG_LENGTHS = (65535, 65536, 65537, 131073)
MANY_COUNTS = (700, 1300)

PRES = {
    "none": [],
    "preemph": ["preemph"],
    "preemph2": ["preemph", ["preemph", 0.5]],
    "preemph_abs": ["preemph", "verif_abs"],     # kaldi tool only: makes the order observable
    "abs_preemph": ["verif_abs", "preemph"],     # thorough, kaldi tool only
}
POST_ITEMS = {
    # item -> (alias used in the tool's configuration, keyword arguments)
    "deltas": ("deltas", {"num_deltas": 2}),
    "stack": ("stack", {"num_vectors": 2}),
    "standardize": ("standardize", {}),
    "deltas1": ("deltas", {"num_deltas": 1, "context_window": 1}),
    "stack3e": ("stack", {"num_vectors": 3, "pad_mode": "edge"}),
    "cmvn_novar": ("cmvn", {"norm_var": False}),
}
POSTS = {
    "none": [],
    "deltas": ["deltas"],
    "stack": ["stack"],
    "deltas_stack": ["deltas", "stack"],
    "standardize": ["standardize"],
    # thorough
    "stack_deltas": ["stack", "deltas"],
    "deltas1": ["deltas1"],
    "stack3e": ["stack3e"],
    "cmvn_novar": ["cmvn_novar"],
    "deltas_cmvn": ["deltas", "cmvn_novar"],
}
SYNTAXES = ("inline", "json_file", "yaml_file")
TORCH_CONTAINERS = ("npy", "wav", "pt", "npz", "hdf5", "sph")
ARRAY_CONTAINERS = ("npy", "pt", "npz", "hdf5")
KALDI_CONTAINERS = ("scp", "ark")


def _scale_json(s):
    if s == "linear":
        return {"name": "linear", "low_hz": 0.0}
    return s


def computer_json(name):
    """the same configuration as a JSON-able tree for the tool (goes through the alias factory)"""
    c = COMPUTERS[name]
    bank = dict(cfg.TINY_BANKS[c["bank"]] if isinstance(c["bank"], str) else c["bank"])
    if "scaling_function" in bank:
        bank["scaling_function"] = _scale_json(bank["scaling_function"])
    d = {"name": c["kind"], "bank": bank, "frame_shift_ms": c["S"] + 0.5,
         "frame_style": c["style"], "include_energy": bool(c["energy"]),
         "pad_to_nearest_power_of_two": bool(c["pad"]), "use_log": bool(c["log"]),
         "use_power": bool(c["power"])}
    if c.get("window"):
        d["window_function"] = c["window"]
    if c["kind"] == "stft":
        d["frame_length_ms"] = c["L"] + 0.5
        d["kaldi_shift"] = bool(c["kaldi"])
    return d


def pre_json(spec):
    out = []
    for p in spec:
        out.append(p if isinstance(p, str) else {"name": p[0], "coeff": p[1]})
    return out


def post_json(spec):
    out = []
    for p in spec:
        alias, kw = POST_ITEMS[p]
        out.append(dict(kw, name=alias) if kw else alias)
    return out


_CUSTOM = {}


def _ensure_custom():
    """a harness-defined, non-linear PreProcessor (user extensions are part of the tool's
    interface: it resolves any registered alias)"""
    if "abs" not in _CUSTOM:
        from pydrobert.speech import pre

        class VerifAbs(pre.PreProcessor):
            aliases = {"verif_abs"}

            def apply(self, signal, axis=None, in_place=False):
                # non-linear, and not channel-wise: a user pre-processor may rely on the documented
                # "applied to 1D signals only" (axis 0 is time for the selected channel)
                return np.abs(signal) - 0.25 * signal + 0.125 * np.roll(signal, 1, axis=0)

        _CUSTOM["abs"] = VerifAbs
    return _CUSTOM["abs"]


def make_pres(spec):
    from pydrobert.speech import pre

    out = []
    for p in spec:
        if p == "preemph":
            out.append(pre.Preemphasize())
        elif p == "verif_abs":
            out.append(_ensure_custom()())
        else:
            out.append(pre.Preemphasize(coeff=p[1]))
    return out


def make_posts(spec):
    from pydrobert.speech import post

    classes = {"deltas": post.Deltas, "stack": post.Stack, "standardize": post.Standardize,
               "cmvn": post.Standardize}
    return [classes[POST_ITEMS[p][0]](**POST_ITEMS[p][1]) for p in spec]


# ------------------------------------------------------------------ YAML / syntax

def _yaml_scalar(v):
    if v is True:
        return "true"
    if v is False:
        return "false"
    if v is None:
        return "null"
    if isinstance(v, (int, float)):
        return repr(v)
    if isinstance(v, str) and v.replace("_", "").isalnum() and not v[0].isdigit() \
            and v.lower() not in ("true", "false", "null", "yes", "no", "on", "off"):
        return v
    if isinstance(v, (dict, list)) and not v:
        return "{}" if isinstance(v, dict) else "[]"
    return json.dumps(v)


def to_yaml(o, ind=0):
    """block-style YAML written by hand (so that the YAML file is not merely JSON)"""
    sp = "  " * ind
    if isinstance(o, dict) and o:
        out = ""
        for k, v in o.items():
            if isinstance(v, (dict, list)) and v:
                out += "%s%s:\n%s" % (sp, k, to_yaml(v, ind + 1))
            else:
                out += "%s%s: %s\n" % (sp, k, _yaml_scalar(v))
        return out
    if isinstance(o, list) and o:
        out = ""
        for v in o:
            if isinstance(v, (dict, list)) and v:
                body = to_yaml(v, ind + 1)
                out += sp + "- " + body[len(sp) + 2:]
            else:
                out += "%s- %s\n" % (sp, _yaml_scalar(v))
        return out
    return sp + _yaml_scalar(o) + "\n"


def config_arg(tree, syntax, d, stem):
    if syntax == "inline":
        return json.dumps(tree)
    if syntax == "json_file":
        p = os.path.join(d, stem + ".json")
        with open(p, "w") as f:
            json.dump(tree, f, indent=2)
        return p
    p = os.path.join(d, stem + ".yaml")
    with open(p, "w") as f:
        f.write("# written by the harness\n" + to_yaml(tree))
    return p


# ------------------------------------------------------------------ data

def samples(seed, n, k):
    x = np.round(sig.signal(seed, n, offset=100 + k) * 1000.0)
    return np.clip(x, -32000, 32000).astype(np.int16)


# ids with prefix / suffix / substring relations in both orders, ids that look like numbers (and would
# collide if compared as numbers), ids that differ in case only, ids that contain the default file suffix
# or an option-like prefix.  The tools' documented formats only forbid white space inside an id.
ID_ALPHABET = ("10", "1", "01", "1.0", "1e1", "a", "A", "a.pt", "p_a", "a_b-c", "ab", "b", "-1")
# id sets of the manifest lattice (torch tool, --manifest): ids that are not fixed-width (one is a
# prefix / substring of another), ids that are equal as numbers, ids that differ in case or contain the
# default file suffix
MANIFEST_ID_SETS = {
    "width": ["utt10", "utt1", "utt11", "utt2"],
    "substr": ["1_a", "1", "11_a", "a"],
    "numeric": ["1", "01", "1.0", "10"],
    "affix": ["a", "A", "a.pt", "x-a"],
}
EDGE_LENGTHS = (124, 125, 126)     # 125 samples at 1000 Hz = 0.125 s, exact in float32 and float64


QUIET_PEAK = 1e-4     # peak amplitude of the quiet utterance (a +-1-normalised float recording at -80 dB)


def quiet_utterances(seed, L, k0, tool, container, prefix):
    """value-dependent paths (the floor of the logarithm, divisions by an energy): digital silence, zero
    padding before / after the signal and - where the container holds floating-point samples (array
    containers of the torch tool) - a float64 utterance of peak amplitude 1e-4"""
    n = 3 * L + 5
    body = samples(seed, L + 3, k0)
    pad = np.zeros(2 * L, np.int16)
    out = [(prefix + "z", np.zeros(n, np.int16), RATE, "silent"),
           (prefix + "l", np.concatenate([pad, body]), RATE, "silent"),
           (prefix + "t", np.concatenate([body, pad]), RATE, "silent")]
    if tool == "torch" and container in ARRAY_CONTAINERS:
        x = samples(seed, n, k0 + 1).astype(np.float64)
        out.append((prefix + "q", x * (QUIET_PEAK / max(1.0, float(np.max(np.abs(x))))), RATE, "quiet"))
    return out


def utterances(setname, comp_name, seed, tool=None, container=None):
    """-> list of (utt id, int16 array (S,) or (C, S) [the quiet utterance: float64 (S,)], rate, note)"""
    c = COMPUTERS.get(comp_name)
    L = c.get("L", 6) if c else 6
    short = max(L // 2, 1) if (c and c["kind"] == "stft") else 2
    if setname == "ids":
        return [(u, samples(seed, 2 * L + 1 + k, 20 + k), RATE, "normal") for k, u in enumerate(ID_ALPHABET)]
    if setname == "edge":
        return [("e%d" % n, samples(seed, n, 40 + k), RATE, "normal") for k, n in enumerate(EDGE_LENGTHS)] \
            + [("eo", samples(seed, 1, 44), RATE, "one")]
    if setname == "sweep":
        # every length from (almost) nothing to a few frames: every residue of the length modulo the
        # shift, 0 / 1 / 2 / ... frames.  The Kaldi wave reader refuses an empty wav; the torch port
        # of the STFT computer is left open by C14 for L//2+1 <= N < L.
        S = c["S"] if c else 2
        top = 2 * L + 2 * S
        out = []
        for n in range(1 if tool == "kaldi" else 0, top + 1):
            if tool == "torch" and c and c["kind"] == "stft" and L // 2 + 1 <= n < L:
                continue
            out.append(("n%02d" % n, samples(seed, n, 50 + n), RATE, "normal" if n >= L else "short"))
        return out + quiet_utterances(seed, L, 130, tool, container, "z")
    if setname == "long":
        # sig.signal has a linear trend that would saturate int16 on a long signal: removed here
        return [("g%d" % n, np.clip(np.round((sig.signal(seed, n, offset=170 + k) - 1e-3 * np.arange(n)) * 1000.0),
                                    -32000, 32000).astype(np.int16), RATE, "normal")
                for k, n in enumerate(LONG_LENGTHS)]
    if setname.startswith("many:"):
        n = int(setname.split(":")[1])
        ids = ["spk%03d-many-utterances-utt%014d" % (i % 13, i) for i in range(n)]
        if any(len(u) != 40 for u in ids):
            raise core.HarnessError("ids of the 'many' set are not 40 characters wide")
        return [(u, samples(seed, 2 * L + 1 + i % 5, 200 + i % 11), RATE, "normal") for i, u in enumerate(ids)]
    if setname.startswith("m:"):
        # ids of a manifest lattice, in map order or reversed
        _, idset, order = setname.split(":")
        ids = list(MANIFEST_ID_SETS[idset])
        return [(u, samples(seed, 2 * L + 1 + k, 60 + k), RATE, "normal")
                for k, u in (enumerate(ids) if order == "fwd" else reversed(list(enumerate(ids))))]
    if setname in ("mono", "mindur", "rate"):
        u = [("ua", samples(seed, 3 * L + 5, 0), RATE, "normal"),
             ("ub", samples(seed, 2 * L + 2, 1), RATE, "normal"),
             ("us", samples(seed, short, 2), RATE, "short"),
             ("uo", samples(seed, 1, 3), RATE, "one")]
        u += quiet_utterances(seed, L, 14, tool, container, "u")
        if setname == "rate":
            u.insert(1, ("ur", samples(seed, 3 * L + 1, 4), 2 * RATE, "rate"))
        return u
    if setname in ("ch0", "ch1"):
        return [("va", np.stack([samples(seed, 3 * L + 4, 5), samples(seed, 3 * L + 4, 6)]), RATE, "normal"),
                ("vb", np.stack([samples(seed, 2 * L + 3, 7 + j) for j in range(3)]), RATE, "normal"),
                ("vs", np.stack([samples(seed, short, 10), samples(seed, short, 11)]), RATE, "short"),
                ("vm", samples(seed, 2 * L + 1, 12)[None], RATE, "one_channel")]
    raise core.HarnessError("unknown set %r" % setname)


def write_wav(path, x, rate):
    w = wave.open(path, "wb")
    w.setnchannels(1 if x.ndim == 1 else x.shape[0])
    w.setsampwidth(2)
    w.setframerate(rate)
    w.writeframes(np.ascontiguousarray(x.T if x.ndim == 2 else x).astype("<i2").tobytes())
    w.close()


def write_sph(path, x, rate):
    head = ("NIST_1A\n   1024\nsample_count -i %d\nsample_n_bytes -i 2\nchannel_count -i 1\n"
            "sample_byte_format -s2 01\nsample_rate -i %d\nsample_coding -s3 pcm\nend_head\n" % (
                len(x), rate)).encode()
    with open(path, "wb") as f:
        f.write(head + b" " * (1024 - len(head)) + x.astype("<i2").tobytes())


def write_inputs(d, container, utts):
    """-> list of (utt, path-as-listed-in-the-map)"""
    import h5py
    import torch

    out = []
    if container == "npz":
        p = os.path.join(d, "all.npz")
        np.savez(p, **{u: x for u, x, _, _ in utts})
        return [(u, p) for u, _, _, _ in utts]
    if container == "hdf5":
        p = os.path.join(d, "all.hdf5")
        with h5py.File(p, "w") as f:
            for u, x, _, _ in utts:
                f.create_dataset(u, data=x)
        return [(u, p) for u, _, _, _ in utts]
    for u, x, rate, _ in utts:
        p = os.path.join(d, "%s.%s" % (u, container))
        if container == "npy":
            np.save(p, x)
        elif container == "pt":
            torch.save(torch.from_numpy(x.copy()), p)
        elif container == "wav":
            write_wav(p, x, rate)
        elif container == "sph":
            write_sph(p, x, rate)
        else:
            raise core.HarnessError(container)
        out.append((u, p))
    return out


class quiet:
    """the tools log to fd 2 (Kaldi's C++ logger included)"""

    def __enter__(self):
        sys.stderr.flush()
        self.saved = os.dup(2)
        dn = os.open(os.devnull, os.O_WRONLY)
        os.dup2(dn, 2)
        os.close(dn)

    def __exit__(self, *a):
        sys.stderr.flush()
        os.dup2(self.saved, 2)
        os.close(self.saved)


def _torch():
    import torch

    if not _CUSTOM.get("threads"):
        torch.set_num_threads(1)
        _CUSTOM["threads"] = True
    return torch


def call_tool(tool, args):
    """-> ('ok', rc) | ('exc', type, msg)"""
    import logging
    import warnings

    from pydrobert.speech import command_line

    fn = command_line.compute_feats_from_kaldi_tables if tool == "kaldi" \
        else command_line.signals_to_torch_feat_dir
    with quiet(), warnings.catch_warnings():
        warnings.simplefilter("ignore")
        try:
            r = computers.call(fn, list(args))
        except SystemExit as e:  # argparse
            r = ("exc", "SystemExit", str(e.code))
    lg = logging.getLogger(sys.argv[0])
    for h in list(lg.handlers):   # the tool adds one stream handler per call
        lg.removeHandler(h)
    return r


# ------------------------------------------------------------------ reference pipeline

def reference(x, comp, pres, posts):
    """x: 1-D float64 samples.  -> (features float32, features before post-processing float32)"""
    import warnings

    with warnings.catch_warnings():
        warnings.simplefilter("ignore")
        for p in pres:
            x = p.apply(x)
        feats = x[:, None] if comp is None else comp.compute_full(x)
        before = feats
        for q in posts:
            feats = q.apply(feats)
    return np.asarray(feats).astype(np.float32), np.asarray(before).astype(np.float32)


def close(got, want):
    if got.shape != want.shape:
        return False
    if not want.size:
        return True
    scale = max(1.0, float(np.max(np.abs(want))))
    return bool(np.all(np.abs(got.astype(np.float64) - want) <= 1e-5 * np.abs(want) + 2e-6 * scale))


def _comp_tags(comp_name):
    if comp_name == "none":
        return dict(comp="none", bank_real=None, energy=False)
    c = COMPUTERS[comp_name]
    if isinstance(c["bank"], str):
        real = c["bank"] in ("tri", "fbank")
    else:
        real = c["bank"]["name"] in ("tri", "fbank") and not c["bank"].get("analytic")
    t = dict(comp=c["kind"], bank_real=real, energy=bool(c["energy"]))
    if comp_name.startswith("bk_"):     # banks lattice: the class of the bank
        t.update(bank_class=c["bank"]["name"])
    if comp_name.startswith("fr_"):     # framing lattice: the structural coordinates of the point
        t.update(style=c["style"], kaldi_shift=bool(c.get("kaldi")), L_even=c.get("L", 1) % 2 == 0,
                 S_even=c["S"] % 2 == 0)
    return t


# ------------------------------------------------------------------ one tool run

def run_case(case, seed, keep=None):
    """case: dict(tool, computer, pre, post, container, set, syntax[, dither, seed_opt, rng,
    min_dur="<text of --min-duration>", channel_opt="<text of --channel>", naming=[prefix, suffix],
    map_style="plain"|"nofinalnl", empty_lists=bool])
    -> dict(viol=[...], stored={utt: array}, skipped=n, nontrivial=bool, obs=...)"""
    from pydrobert.speech import util

    torch = _torch()
    tool, comp_name = case["tool"], case["computer"]
    pre_spec, post_spec = PRES[case["pre"]], POSTS[case["post"]]
    setname, container, syntax = case["set"], case["container"], case["syntax"]
    _ensure_custom()
    comp = None if comp_name == "none" else cfg.make_computer(COMPUTERS[comp_name])
    utts = utterances(setname, comp_name, seed, tool, container)
    channel = {"ch0": 0, "ch1": 1}.get(setname, -1)
    min_dur_text = case.get("min_dur", "0.0015" if setname == "mindur" else None)
    min_dur = None if min_dur_text is None else float(min_dur_text)
    naming = case.get("naming")
    prefix, suffix = (naming[0], naming[1]) if naming is not None else ("", ".pt")
    manifest = case.get("manifest")          # torch tool: ids already listed (in line order), or None
    if manifest is not None and tool != "torch":
        raise core.HarnessError("--manifest is an option of the torch tool")
    if min_dur:
        for _u, x, rate, _n in utts:
            dur = x.shape[-1] / float(rate)
            if dur != min_dur and abs(dur - min_dur) < 1e-4 * min_dur or \
                    (dur == min_dur and float(np.float32(dur)) != dur):
                raise core.HarnessError("duration %r too close to --min-duration %r for a float32 "
                                        "reader" % (dur, min_dur))
    tags0 = dict(tool=tool)
    tags0.update(_comp_tags(comp_name))
    viol, obs = [], []

    # ---- expectation per utterance
    expect, before, excluded, dropped = {}, {}, set(), 0
    kept = []
    for u, x, rate, note in utts:
        if manifest is not None and u in manifest:
            excluded.add(u)
            kept.append((u, x, rate, note))
            continue
        if tool == "kaldi" and rate != RATE:
            excluded.add(u)
            kept.append((u, x, rate, note))
            continue
        if min_dur is not None and x.shape[-1] / float(rate) < min_dur:
            excluded.add(u)
            kept.append((u, x, rate, note))
            continue
        if x.ndim == 2 and channel >= x.shape[0]:
            if tool == "torch":
                dropped += 1          # the torch tool raises for the whole run: outside the lattice
                continue
            excluded.add(u)
            kept.append((u, x, rate, note))
            continue
        mono = x if x.ndim == 1 else x[channel if channel >= 0 else 0]
        if x.ndim == 2 and x.shape[0] > 1 and channel < 0:
            raise core.HarnessError("multi-channel utterance without --channel is outside the domain")
        try:
            f, b = reference(mono.astype(np.float64), comp, make_pres(pre_spec), make_posts(post_spec))
        except Exception as e:  # reference pipeline undefined => outside the domain
            dropped += 1
            obs.append("ref_undefined:" + type(e).__name__)
            continue
        expect[u], before[u] = f, b
        kept.append((u, x, rate, note))
    utts = kept

    d = tempfile.mkdtemp(prefix="verif-")
    stored = {}
    try:
        ind = os.path.join(d, "in")
        os.makedirs(ind)
        # ---- inputs
        if tool == "kaldi":
            paths = []
            for u, x, rate, _ in utts:
                p = os.path.join(ind, u + ".wav")
                write_wav(p, x, rate)
                paths.append((u, p))
            if container == "scp":
                with open(os.path.join(d, "wav.scp"), "w") as f:
                    for u, p in paths:
                        f.write("%s %s\n" % (u, p))
                rspec = "scp:" + os.path.join(d, "wav.scp")
            else:
                with open(os.path.join(d, "wav.ark"), "wb") as f:
                    for u, p in paths:
                        with open(p, "rb") as g:
                            f.write(u.encode() + b" " + g.read())
                rspec = "ark:" + os.path.join(d, "wav.ark")
        else:
            paths = write_inputs(ind, container, utts)
            text = "".join("%s %s\n" % (u, p) for u, p in paths)
            if case.get("map_style") == "nofinalnl":
                text = text[:-1]
            with open(os.path.join(d, "map"), "w") as f:
                f.write(text)
        # ---- the reference's view of the stored signal: read_signal must return what was written
        for (u, p), (_, x, rate, _) in zip(paths, utts):
            r = computers.call(lambda: util.read_signal(p, dtype=np.float64, key=u))
            want = x.astype(np.float64)
            if want.ndim == 2 and (tool == "kaldi" or container in ("wav", "sph")):
                want = want[0] if want.shape[0] == 1 else want.T   # time-first readers
            if r[0] != "ok" or r[1].shape != want.shape or not np.array_equal(r[1], want):
                # C11/C12's business, not C09's: the case is not judged
                return dict(viol=[], stored={}, skipped=len(utts) + dropped, nontrivial=False,
                            obs="read_signal_differs")
        # ---- arguments
        cargs = []
        if comp_name != "none":
            cargs.append(config_arg(computer_json(comp_name), syntax, d, "computer"))
        opts = []
        pj = list(case["dither"]) if case.get("dither") is not None else pre_json(pre_spec)
        if pj:
            opts += ["--preprocess", config_arg(pj, syntax, d, "pre")]
        elif case.get("empty_lists"):
            opts += ["--preprocess", config_arg([], syntax, d, "pre")]     # an empty list, spelled out
        if post_spec:
            opts += ["--postprocess", config_arg(post_json(post_spec), syntax, d, "post")]
        elif case.get("empty_lists"):
            opts += ["--postprocess", config_arg([], syntax, d, "post")]
        if channel >= 0:
            opts += ["--channel", str(channel)]
        elif case.get("channel_opt") is not None:
            opts += ["--channel", str(case["channel_opt"])]    # the default, spelled out
        if case.get("seed_opt") is not None:
            opts += ["--seed", str(case["seed_opt"])]
        if case.get("rng") is not None:   # dirty the global generators differently per run
            np.random.seed(case["rng"])
            torch.manual_seed(case["rng"])
        if tool == "kaldi":
            if min_dur_text is not None:
                opts += ["--min-duration", min_dur_text]
            out_ark = os.path.join(d, "feats.ark")
            args = [rspec, "ark:" + out_ark] + cargs + opts
        else:
            out_dir = os.path.join(d, "out")
            if naming is not None:
                opts += ["--file-prefix=" + prefix, "--file-suffix=" + suffix]
            if manifest is not None:
                mpath = os.path.join(d, "manifest")
                with open(mpath, "w") as f:
                    f.write("".join(u + "\n" for u in manifest))
                opts += ["--manifest", mpath]
            args = [os.path.join(d, "map")] + cargs + [out_dir] + opts
        r = call_tool(tool, args)
        case_out = dict(case)
        # ---- outcome
        if r[0] != "ok":
            what = "exception"
            if setname == "rate":
                what = "rate_mismatch_raises"
            viol.append(core.violation(
                dict(tags0 if what == "exception" else dict(tool=tool), what=what, exc=r[1]),
                "%s tool raised %s: %s (set %s, %d utterances expected in the output)" % (
                    tool, r[1], r[2], setname, len(expect)), case_out))
            return dict(viol=viol, stored={}, skipped=dropped, nontrivial=True, obs="raised:" + r[1])
        rc = r[1]
        if tool == "kaldi":
            from pydrobert.kaldi.io import open as kaldi_open

            ids = []
            if os.path.exists(out_ark):
                with kaldi_open("ark:" + out_ark, "bm") as tab:
                    for k, v in tab.items():
                        ids.append(k)
                        stored[k] = np.array(v)
                if keep is not None:
                    with open(out_ark, "rb") as f:
                        keep["bytes"] = f.read()
        else:
            ids = []
            names = sorted(os.listdir(out_dir)) if os.path.isdir(out_dir) else []
            for nm in names:
                if not (nm.startswith(prefix) and nm.endswith(suffix)
                        and len(nm) >= len(prefix) + len(suffix)):
                    ids.append(nm)           # not <prefix><id><suffix>: reported as an extra id
                    continue
                u = nm[len(prefix):len(nm) - len(suffix)]
                ids.append(u)
                t = torch.load(os.path.join(out_dir, nm))
                stored[u] = t.numpy() if hasattr(t, "numpy") else np.asarray(t)
                if t.dtype != torch.float32:
                    viol.append(core.violation(dict(tags0, what="dtype"),
                                               "%s stored as %s, FloatTensor documented" % (nm, t.dtype),
                                               case_out))
            if keep is not None:
                keep["bytes"] = b"".join(open(os.path.join(out_dir, nm), "rb").read() for nm in names)
        if len(ids) != len(set(ids)):
            viol.append(core.violation(dict(tool=tool, what="extra_id", dup=True),
                                       "ids written more than once: %r" % ids, case_out))
        mtags = {}
        for u in sorted(set(expect) - set(ids)):
            if manifest is not None:
                mtags = dict(manifest_nonempty=bool(manifest),
                             related_to_listed_id=any(u in v or v in u for v in manifest))
            viol.append(core.violation(
                dict(mtags, tool=tool, what="missing_id"),
                "utterance %s is not excluded by any option%s but is absent from the output (ids %r, rc %r)"
                % (u, "" if manifest is None else " nor listed in the manifest %r" % (manifest,), ids, rc),
                case_out))
        for u in sorted(set(ids) - set(expect)):
            listed = manifest is not None and u in manifest
            viol.append(core.violation(
                dict(tool=tool, what="extra_id", dup=False, **(dict(listed_in_manifest=True) if listed else {})),
                "output holds %s, which is %s" % (
                    u, "listed in the manifest %r (already computed: must not be computed again)" % (manifest,)
                    if listed else "excluded (rate / duration / channel)" if u in excluded
                    else "not an input id"),
                case_out))
        if case.get("dither") is None:
            for u in sorted(set(expect) & set(stored)):
                got, want = stored[u], expect[u]
                empty = want.shape[0] == 0
                if tool == "kaldi" and empty and got.shape[0] == 0:
                    obs.append("ok_empty")    # a Kaldi matrix without rows has no columns either
                    continue
                if close(got, want):
                    obs.append("ok_empty" if empty else "ok")
                    continue
                if post_spec and close(got, before[u]) and not close(before[u], want):
                    viol.append(core.violation(
                        dict(tool=tool, what="postprocess_ignored"),
                        "%s: stored matrix %r equals the features BEFORE post-processing; after %s it "
                        "should have shape %r" % (u, got.shape, post_spec, want.shape), case_out))
                    continue
                if got.shape != want.shape:
                    viol.append(core.violation(
                        dict(tags0, what="shape", empty=bool(empty)),
                        "%s: stored shape %r, pipeline gives %r" % (u, got.shape, want.shape), case_out))
                    continue
                dmax = float(np.max(np.abs(got.astype(np.float64) - want)))
                viol.append(core.violation(
                    dict(tags0, what="values", empty=False),
                    "%s: max |stored - pipeline| = %.4g (|pipeline| max %.4g); first rows stored %r "
                    "pipeline %r" % (u, dmax, float(np.max(np.abs(want))), got[:1].tolist(),
                                     want[:1].tolist()), case_out))
        nontriv = any(v.shape[0] > 0 for v in expect.values())
        return dict(viol=viol, stored=stored, skipped=dropped, nontrivial=nontriv,
                    obs=sorted(set(obs)), rc=rc)
    finally:
        shutil.rmtree(d, ignore_errors=True)


# ------------------------------------------------------------------ sub-check: pipeline

def sets_for(tool, container):
    if tool == "kaldi":
        return ("mono", "ch0", "ch1", "mindur", "rate")
    if container in ARRAY_CONTAINERS:
        return ("mono", "ch0", "ch1")
    return ("mono",)


def _pipeline(pt, seed):
    tool, comp_name, pre, post, container = pt
    viol, evals, nontriv, skipped = [], 0, 0, 0
    obs = set()
    for setname in sets_for(tool, container):
        per_syntax = {}
        for syntax in SYNTAXES:
            case = dict(tool=tool, computer=comp_name, pre=pre, post=post, container=container,
                        set=setname, syntax=syntax)
            r = run_case(case, seed)
            evals += 1
            nontriv += 1 if r["nontrivial"] else 0
            skipped += r["skipped"]
            viol += r["viol"]
            o = r["obs"]
            obs.update(o if isinstance(o, list) else [o])
            per_syntax[syntax] = r["stored"]
        base = per_syntax["inline"]
        for syntax in SYNTAXES[1:]:
            other = per_syntax[syntax]
            same = set(base) == set(other) and all(
                base[k].shape == other[k].shape and np.array_equal(base[k], other[k]) for k in base)
            if not same:
                viol.append(core.violation(
                    dict(tool=tool, what="syntax_differs", syntax=syntax),
                    "the same configuration as %s gives different stored features than inline JSON "
                    "(ids %r vs %r)" % (syntax, sorted(other), sorted(base)),
                    dict(tool=tool, computer=comp_name, pre=pre, post=post, container=container,
                         set=setname, syntax=syntax, compare_with="inline")))
    return core.result(viol, evals=evals, nontrivial_count=nontriv, obs=sorted(obs), skipped=skipped,
                       sample=dict(tool=tool, computer=comp_name, pre=PRES[pre], post=POSTS[post],
                                   container=container, inner="utterance sets %s x 3 syntaxes"
                                   % (sets_for(tool, container),)))


def _pipeline_replay(case, seed):
    if case.get("compare_with"):
        a = run_case(dict(case, syntax=case["compare_with"]), seed)
        b = run_case(dict(case), seed)
        same = set(a["stored"]) == set(b["stored"]) and all(
            np.array_equal(a["stored"][k], b["stored"][k]) for k in a["stored"])
        v = [] if same else [core.violation(
            dict(tool=case["tool"], what="syntax_differs", syntax=case["syntax"]),
            "stored features differ between %s and %s" % (case["syntax"], case["compare_with"]), case)]
        return core.result(v + a["viol"] + b["viol"])
    r = run_case(case, seed)
    return core.result(r["viol"], nontrivial=r["nontrivial"], obs=r["obs"])


# ------------------------------------------------------------------ sub-check: framing

def _single(case, seed):
    r = run_case(case, seed)
    o = r["obs"]
    return r, set(o if isinstance(o, list) else [o])


def _framing(pt, seed):
    tool, comp_name, post = pt
    case = dict(tool=tool, computer=comp_name, pre="none", post=post,
                container="npy" if tool == "torch" else "scp", set="sweep", syntax="inline")
    r, obs = _single(case, seed)
    c = COMPUTERS[comp_name]
    open_zone = len(range(c["L"] // 2 + 1, c["L"])) if (tool == "torch" and c["kind"] == "stft") else 0
    frames = sorted(set(v.shape[0] for v in r["stored"].values()))
    return core.result(r["viol"], evals=1, nontrivial=r["nontrivial"] and len(frames) > 2,
                       obs=sorted(obs) + [c["style"], bool(c.get("kaldi")), c.get("L", 0) % 2, c["S"] % 2],
                       skipped=r["skipped"] + open_zone,
                       sample=dict(case, computer_config=c, frame_counts_seen=frames))


def _case_replay(case, seed):
    r = run_case(case, seed)
    return core.result(r["viol"], nontrivial=r["nontrivial"], obs=r["obs"])


# ------------------------------------------------------------------ sub-check: banks

BANK_SYNTAXES = ("inline", "yaml_file")


def _banks(pt, seed):
    """pt = (tool, computer of the banks lattice, pre, post); inner: configuration syntax"""
    tool, comp_name, pre, post = pt
    viol, obs, evals, nontriv, skipped = [], set(), 0, 0, 0
    per = {}
    for syntax in BANK_SYNTAXES:
        case = dict(tool=tool, computer=comp_name, pre=pre, post=post,
                    container="npy" if tool == "torch" else "scp", set="mono", syntax=syntax)
        r, o = _single(case, seed)
        viol += r["viol"]
        evals += 1
        nontriv += 1 if r["nontrivial"] else 0
        skipped += r["skipped"]
        obs |= o
        per[syntax] = r["stored"]
    base, other = per["inline"], per["yaml_file"]
    if not (set(base) == set(other) and all(
            base[k].shape == other[k].shape and np.array_equal(base[k], other[k]) for k in base)):
        viol.append(core.violation(
            dict(tool=tool, what="syntax_differs", syntax="yaml_file"),
            "the same configuration as a YAML file gives different stored features than inline JSON "
            "(ids %r vs %r)" % (sorted(other), sorted(base)),
            dict(tool=tool, computer=comp_name, pre=pre, post=post,
                 container="npy" if tool == "torch" else "scp", set="mono", syntax="yaml_file",
                 compare_with="inline")))
    c = COMPUTERS[comp_name]
    return core.result(viol, evals=evals, nontrivial_count=nontriv, skipped=skipped,
                       obs=sorted(obs) + [tool, c["bank"]["name"], c["kind"]],
                       sample=dict(tool=tool, computer=comp_name, computer_config=computer_json(comp_name),
                                   pre=PRES[pre], post=POSTS[post]))


# ------------------------------------------------------------------ sub-check: large inputs

def _large(pt, seed):
    """pt = ("long", tool, computer, pre, post) | ("many", count)"""
    if pt[0] == "long":
        _, tool, comp_name, pre, post = pt
        case = dict(tool=tool, computer=comp_name, pre=pre, post=post,
                    container="npy" if tool == "torch" else "scp", set="long", syntax="inline")
    else:
        case = dict(tool="torch", computer="none", pre="none", post="none", container="npy",
                    set="many:%d" % pt[1], syntax="inline")
    r, obs = _single(case, seed)
    viol = []
    for v in r["viol"]:     # the sizes are what this lattice is about
        viol.append(core.violation(dict(v["tags"], large=pt[0]), v["detail"][:600], v["case"]))
    return core.result(viol, evals=1, nontrivial=r["nontrivial"], skipped=r["skipped"],
                       obs=sorted(obs) + [pt[0], len(r["stored"])], sample=case)


def _large_replay(case, seed):
    if case["set"] == "long":
        return _large(("long", case["tool"], case["computer"], case["pre"], case["post"]), seed)
    return _large(("many", int(case["set"].split(":")[1])), seed)


# ------------------------------------------------------------------ sub-check: options / ids

NAMINGS = {
    "default": None,                 # no --file-prefix / --file-suffix given
    "both": ["p_", ".feat"],
    "empty": ["", ""],               # both options have an empty value with a meaning
    "prefix_only": ["a.", ""],
}
MIN_DURS = (None, "0", "0.0015", "0.125")


def _options(pt, seed):
    """pt = ("torch", computer, container, set, empty_lists, naming, map_style) |
            ("kaldi", computer, container, set, empty_lists, min_dur)"""
    tool, comp_name, container, setname = pt[:4]
    case = dict(tool=tool, computer=comp_name, pre="none", post="none", container=container,
                set=setname, syntax="inline")
    if pt[4]:
        case["empty_lists"] = True
    pt = pt[:4] + pt[5:]
    if setname == "mono_explicit":
        case.update(set="mono", channel_opt="-1")
    if tool == "torch":
        if NAMINGS[pt[4]] is not None:
            case["naming"] = NAMINGS[pt[4]]
        case["map_style"] = pt[5]
    elif pt[4] is not None:
        case["min_dur"] = pt[4]
    r, obs = _single(case, seed)
    return core.result(r["viol"], evals=1, nontrivial=r["nontrivial"],
                       obs=sorted(obs) + [len(r["stored"])], skipped=r["skipped"], sample=case)


# ------------------------------------------------------------------ sub-check: manifest (torch tool)

def _manifest(pt, seed):
    """pt = (computer, container, id set, map order, naming); inner: EVERY subset of the ids already
    listed in the manifest x {lines in map order, reversed}: exactly the unlisted ids are stored, each
    equal to the reference pipeline"""
    comp_name, container, idset, order, naming = pt
    setname = "m:%s:%s" % (idset, order)
    ids = [u for u, _, _, _ in utterances(setname, comp_name, seed, "torch")]
    viol, obs, evals, nontriv, skipped = [], set(), 0, 0, 0
    for mask in range(2 ** len(ids)):
        listed = [u for i, u in enumerate(ids) if mask >> i & 1]
        for rev in ((False, True) if len(listed) > 1 else (False,)):
            case = dict(tool="torch", computer=comp_name, pre="none", post="none", container=container,
                        set=setname, syntax="inline", manifest=listed[::-1] if rev else listed)
            if NAMINGS[naming] is not None:
                case["naming"] = NAMINGS[naming]
            r, o = _single(case, seed)
            viol += r["viol"]
            evals += 1
            nontriv += int(0 < len(listed) < len(ids))
            skipped += r["skipped"]
            obs.add((len(listed), len(r["stored"])))
    return core.result(viol, evals=evals, nontrivial_count=nontriv, obs=[idset, order, naming] + sorted(obs),
                       skipped=skipped,
                       sample=dict(computer=comp_name, container=container, ids=ids, naming=NAMINGS[naming],
                                   inner="every subset of the ids listed in the manifest x {map order, "
                                         "reversed} of its lines"))


# ------------------------------------------------------------------ sub-check: seed / dither

DITHERS = {
    "dither": ["dither"],
    "dither_preemph": ["dither", "preemph"],
    "preemph_dither": ["preemph", {"name": "dither", "coeff": 0.5}],
}


SEED_VALUES = (0, 1, 7, 2 ** 31 - 1)     # 0 is falsy; 2**31-1 is the largest seed the tools draw themselves


def _seed_case(pt, seed):
    tool, comp_name, dname, post, container = pt[:5]
    sv = pt[5] if len(pt) > 5 else 7
    other = sv + 1 if sv < 2 ** 31 - 1 else sv - 1
    viol = []
    base = dict(tool=tool, computer=comp_name, pre="none", post=post, container=container, set="mono",
                dither=DITHERS[dname], seed_value=sv)
    outs = {}
    runs = [("a", "inline", sv, 11), ("b", "inline", sv, 12), ("yaml", "yaml_file", sv, 13),
            ("json", "json_file", sv, 14), ("other", "inline", other, 11)]
    for name, syntax, sd, rng in runs:
        keep = {}
        r = run_case(dict(base, syntax=syntax, seed_opt=sd, rng=rng), seed, keep=keep)
        viol += r["viol"]
        outs[name] = (keep.get("bytes"), r["stored"])
    case = dict(base, runs=[list(x) for x in runs])
    tags = dict(tool=tool)
    if outs["a"][0] is None or outs["a"][0] != outs["b"][0]:
        viol.append(core.violation(
            dict(tags, what="seed_not_reproducible", seed_is_zero=(sv == 0)),
            "two runs with --seed %d (global generators left in different states) wrote different "
            "bytes; ids %r / %r" % (sv, sorted(outs["a"][1]), sorted(outs["b"][1])), case))
    for s in ("yaml", "json"):
        if outs["a"][0] != outs[s][0]:
            viol.append(core.violation(
                dict(tags, what="syntax_differs", syntax=s + "_file"),
                "--seed %d with the configuration as a %s file wrote different bytes than inline JSON"
                % (sv, s), case))
    changed = outs["a"][0] != outs["other"][0]
    return core.result(viol, evals=len(runs), nontrivial=changed,
                       obs=(tool, comp_name, sv, "seed_matters", changed,
                            sorted((k, list(v.shape)) for k, v in outs["a"][1].items())),
                       sample=dict(tool=tool, computer=comp_name, pre=DITHERS[dname], post=POSTS[post],
                                   container=container))


def _seed_replay(case, seed):
    pt = (case["tool"], case["computer"],
          [k for k, v in DITHERS.items() if v == case["dither"]][0], case["post"], case["container"],
          case.get("seed_value", 7))
    return _seed_case(pt, seed)


# ------------------------------------------------------------------ sub-check: seed, separate interpreters

# str-hash salt of the interpreters that run the tool.  ./check itself runs with PYTHONHASHSEED=0 and a
# child inherits it, which hides any dependence on hash() / set order of strings; a user's interpreters
# are salted at random.  Three fixed, different salts make the verdict (and the replay) deterministic;
# the unset one is what a user has.
HASH_SALTS = ("0", "1", "2", None)
PROC_PRES = dict(DITHERS, none=[])


def _proc_jobs(tool, comp_name):
    """the job lattice of one interpreter: pre-processors x post x --seed value"""
    return [(pn, post, sv) for pn in PROC_PRES for post in ("none", "deltas_stack") for sv in SEED_VALUES]


def _seed_processes(pt, seed, only_job=None):
    """pt = (tool, computer).  One fresh interpreter per salt in HASH_SALTS runs the whole job lattice
    (the tools' entry functions, one call after the other, global generators dirtied differently per
    interpreter and job); for every job the bytes written must be identical in all interpreters."""
    import threading

    from .. import crash

    tool, comp_name = pt
    jobs = _proc_jobs(tool, comp_name)
    utts = utterances("ids", comp_name, seed, tool)
    d = tempfile.mkdtemp(prefix="verif-")
    viol = []
    try:
        ind = os.path.join(d, "in")
        os.makedirs(ind)
        if tool == "kaldi":
            with open(os.path.join(d, "wav.scp"), "w") as f:
                for u, x, rate, _ in utts:
                    p = os.path.join(ind, u + ".wav")
                    write_wav(p, x, rate)
                    f.write("%s %s\n" % (u, p))
            src = "scp:" + os.path.join(d, "wav.scp")
        else:
            paths = write_inputs(ind, "npy", utts)
            with open(os.path.join(d, "map"), "w") as f:
                f.write("".join("%s %s\n" % (u, p) for u, p in paths))
            src = os.path.join(d, "map")
        cjson = [] if comp_name == "none" else [json.dumps(computer_json(comp_name))]

        def out_of(k, j):
            return os.path.join(d, "out", "salt%d" % k, "job%03d" % j)

        batches = []
        for k, _salt in enumerate(HASH_SALTS):
            batch = []
            for j, (pn, post, sv) in enumerate(jobs):
                os.makedirs(os.path.dirname(out_of(k, j)), exist_ok=True)
                opts = ["--seed", str(sv)]
                if PROC_PRES[pn]:
                    opts += ["--preprocess", json.dumps(PROC_PRES[pn])]
                if POSTS[post]:
                    opts += ["--postprocess", json.dumps(post_json(POSTS[post]))]
                if tool == "kaldi":
                    args = [src, "ark:" + out_of(k, j)] + cjson + opts
                else:
                    args = [src] + cjson + [out_of(k, j)] + opts
                batch.append(dict(tool=tool, args=args))
            batches.append(batch)
        res = [None] * len(HASH_SALTS)

        def one(k):
            res[k] = crash.tool_batch(batches[k], HASH_SALTS[k], salt=k + 1)

        ts = [threading.Thread(target=one, args=(k,)) for k in range(len(HASH_SALTS))]
        for t in ts:
            t.start()
        for t in ts:
            t.join()
        for k, rr in enumerate(res):
            if rr is None or rr[1] is None or len(rr[1]) != len(jobs):
                raise core.HarnessError("interpreter with PYTHONHASHSEED=%r did not finish its batch: %r" % (
                    HASH_SALTS[k], None if rr is None else (rr[0]["rc"], rr[0]["err"][-400:])))

        def content(k, j):
            p = out_of(k, j)
            if os.path.isdir(p):
                return [(nm, open(os.path.join(p, nm), "rb").read()) for nm in sorted(os.listdir(p))]
            if os.path.exists(p):
                return open(p, "rb").read()
            return None

        by_seed, nontriv, obs = {}, 0, set()
        for j, (pn, post, sv) in enumerate(jobs):
            if only_job is not None and j != only_job:
                continue
            case = dict(kind="seed_processes", tool=tool, computer=comp_name, job=j,
                        pre=PROC_PRES[pn], post=post, seed_value=sv)
            outs = [content(k, j) for k in range(len(HASH_SALTS))]
            status = [res[k][1][j] for k in range(len(HASH_SALTS))]
            bad = [k for k in range(len(HASH_SALTS)) if status[k] not in (["ok", 0], ["ok", None])
                   or not outs[k]]
            if bad:
                viol.append(core.violation(
                    dict(tool=tool, what="exception", in_separate_interpreter=True,
                         outcome=str(status[bad[0]][:2])),
                    "interpreter with PYTHONHASHSEED=%r: %s tool with %r ended with %r" % (
                        HASH_SALTS[bad[0]], tool, batches[bad[0]][j]["args"][2:], status[bad[0]]), case))
                continue
            differ = [k for k in range(1, len(HASH_SALTS)) if outs[k] != outs[0]]
            if differ:
                fixed = [k for k in differ if HASH_SALTS[k] is not None]
                viol.append(core.violation(
                    dict(tool=tool, what="seed_not_reproducible", across="interpreters", dither=bool(PROC_PRES[pn]),
                         seed_is_zero=(sv == 0), only_random_salt=not fixed),
                    "--seed %d, --preprocess %r, --postprocess %s: the bytes written by separate interpreters "
                    "differ (same command, same inputs; str-hash salt PYTHONHASHSEED=%r vs %r)" % (
                        sv, PROC_PRES[pn], post, HASH_SALTS[0], [HASH_SALTS[k] for k in differ]), case))
            by_seed.setdefault((pn, post), []).append(outs[0])
            obs.add((pn, bool(differ)))
        for (pn, post), lst in by_seed.items():
            distinct = sum(1 for i, a in enumerate(lst) if all(a != b for b in lst[:i]))
            if PROC_PRES[pn] and distinct == len(lst):
                nontriv += len(lst)                  # the seed is observable: every value gives other bytes
        return core.result(viol, evals=len(jobs) * len(HASH_SALTS) if only_job is None else len(HASH_SALTS),
                           nontrivial_count=nontriv * len(HASH_SALTS), obs=[tool, comp_name] + sorted(map(str, obs)),
                           impl_calls=len(HASH_SALTS),
                           sample=dict(tool=tool, computer=comp_name, salts=list(HASH_SALTS),
                                       jobs="pre %r x post x --seed %r" % (list(PROC_PRES), list(SEED_VALUES))))
    finally:
        shutil.rmtree(d, ignore_errors=True)


def _seed_processes_replay(case, seed):
    # the whole batch is run again (the same call sequence in every interpreter); only the job of the
    # case is judged
    return _seed_processes((case["tool"], case["computer"]), seed, only_job=case["job"])


# ------------------------------------------------------------------ sub-check: tool runs in one interpreter

HIST_COMPS = ("stft_fbank", "stft_gabor_e", "si_gabor")
HIST_DEPTH = {"quick": 2, "thorough": 3}


def _hist_calls():
    """alphabet of tool runs: tool x computer x pre {none, preemph} x post {none, [deltas, stack]} on the
    'mono' utterance set (validity: the kaldi tool needs a computer)"""
    out = []
    for tool in ("torch", "kaldi"):
        for cn in (("none",) if tool == "torch" else ()) + HIST_COMPS:
            for pre, post in itertools.product(("none", "preemph"), ("none", "deltas_stack")):
                out.append(dict(tool=tool, computer=cn, pre=pre, post=post,
                                container="npy" if tool == "torch" else "scp", set="mono", syntax="inline"))
    return out


def _hist_seqs(depth, first):
    calls = _hist_calls()
    return [[calls[first]] + [calls[k] for k in rest]
            for n in range(depth) for rest in itertools.product(range(len(calls)), repeat=n)]


def _hist_child(seed):
    """-> child(seq) for mc.crash.explore_histories.  The parent imports and never calls the library."""
    from pydrobert.kaldi.io import open as kaldi_open  # noqa: F401
    from pydrobert.speech import command_line, compute, post, pre, util  # noqa: F401

    _torch()

    def child(seq):
        viol, obs = [], []
        for j, case in enumerate(seq):
            r = run_case(dict(case), seed)
            for v in r["viol"]:
                viol.append([dict(v["tags"], in_history=True, first_call=(j == 0)),
                             "run %d of %d in one interpreter (%s): %s" % (
                                 j + 1, len(seq), "; ".join("%s %s pre=%s post=%s" % (
                                     c["tool"], c["computer"], c["pre"], c["post"]) for c in seq), v["detail"])])
            o = r["obs"]
            obs.append("|".join(o) if isinstance(o, list) else str(o))
        return dict(viol=viol, obs=obs)

    return child


def _histories(pt, seed):
    """pt = (depth, index of the first run): every sequence of 1..depth tool runs that starts with that
    run, one after the other in one forked child (see mc.crash.explore_histories)"""
    from .. import crash

    depth, first = pt
    seqs = _hist_seqs(depth, first)
    viol, results, forks = crash.explore_histories(seqs, _hist_child(seed), dict(depth=depth, first=first))
    obs = sorted(set(o for r in results for o in r["obs"]))
    return core.result(viol, evals=sum(len(q) for q in seqs), nontrivial_count=sum(len(q) for q in seqs if len(q) > 1),
                       obs=[seqs[0][0]["tool"], seqs[0][0]["computer"]] + obs, impl_calls=forks,
                       sample=dict(first_run=seqs[0][0], depth=depth,
                                   inner="every continuation of 0..%d further runs" % (depth - 1)))


def _histories_replay(case, seed):
    from .. import crash

    return core.result(crash.replay_history(case, lambda c: _hist_seqs(c["depth"], c["first"]),
                                            _hist_child(seed)))


# ------------------------------------------------------------------

def _preimport():
    """import (never call) everything a tool run needs BEFORE the worker pools are forked: every worker
    and every history child inherits the modules instead of importing them again"""
    from pydrobert.kaldi.io import open as kaldi_open  # noqa: F401
    from pydrobert.speech import command_line, compute, post, pre, util  # noqa: F401

    import h5py  # noqa: F401
    _torch()


def subchecks(tier, seed, only=None):
    _preimport()
    quick = tier == "quick"
    comps = ["stft_fbank", "stft_gabor_e", "si_gabor"]
    pres = ["none", "preemph", "preemph2"]
    posts = ["none", "deltas", "stack", "deltas_stack", "standardize"]
    kpres = pres + ["preemph_abs"]
    if not quick:
        comps += ["stft_tri_causal", "si_gammatone_c", "stft_fbank_e"]
        posts += ["stack_deltas", "deltas1", "stack3e", "cmvn_novar", "deltas_cmvn"]
        kpres += ["abs_preemph"]
    pts = []
    for comp_name in ["none"] + comps:
        for pre, post, cont in itertools.product(pres, posts, TORCH_CONTAINERS):
            pts.append(("torch", comp_name, pre, post, cont))
    for comp_name in comps:
        for pre, post, cont in itertools.product(kpres, posts, KALDI_CONTAINERS):
            pts.append(("kaldi", comp_name, pre, post, cont))
    spts = []
    for comp_name in ["none"] + comps:
        for dn, post, sv in itertools.product(DITHERS, ("none", "deltas_stack"), SEED_VALUES):
            spts.append(("torch", comp_name, dn, post, "npy", sv))
    for comp_name in comps:
        for dn, post, sv in itertools.product(DITHERS, ("none", "deltas_stack"), SEED_VALUES):
            spts.append(("kaldi", comp_name, dn, post, "scp", sv))
    # framing: tool x (frame style x kaldi_shift x parity of L x parity of S, STFT and SI) x post
    fposts = ["none", "deltas_stack", "standardize"]
    tier_ = "quick" if quick else "thorough"
    fpts = [(tool, cn, post) for tool, cn, post in
            itertools.product(("torch", "kaldi"), framing_computers(tier_), fposts)]
    # options / ids
    ocomps = ["none", "stft_fbank"] if quick else ["none"] + comps
    opts_ = []
    for comp_name, cont, setname, el, naming, ms in itertools.product(
            ocomps, TORCH_CONTAINERS, ("mono", "mono_explicit", "ids", "ch0", "ch1"), (False, True),
            NAMINGS, ("plain", "nofinalnl")):
        if setname in ("ch0", "ch1") and cont not in ARRAY_CONTAINERS:
            continue         # validity: multi-channel inputs of the torch tool are (C, S) arrays
        opts_.append(("torch", comp_name, cont, setname, el, naming, ms))
    for comp_name, cont, setname, el, md in itertools.product(
            ocomps[1:], KALDI_CONTAINERS, ("mono", "ids", "ch0", "ch1", "edge"), (False, True), MIN_DURS):
        opts_.append(("kaldi", comp_name, cont, setname, el, md))
    # manifest lattice (torch tool)
    mconts = ("npy", "npz") if quick else TORCH_CONTAINERS      # listed by path / by key = utterance id
    mnames = ("default", "both") if quick else tuple(NAMINGS)
    mpts = [(cn, cont, idset, order, nm) for cn, cont, idset, order, nm in itertools.product(
        ocomps, mconts, MANIFEST_ID_SETS, ("fwd", "rev"), mnames)]
    # separate interpreters
    ppts = [("torch", cn) for cn in ["none"] + comps] + [("kaldi", cn) for cn in comps]
    axes = dict(
        tool=["torch", "kaldi"], computer=["none (torch tool only)"] + comps,
        computer_configs={k: COMPUTERS[k] for k in comps},
        pre={k: PRES[k] for k in kpres}, post={k: POSTS[k] for k in posts},
        syntax=list(SYNTAXES), container=dict(torch=list(TORCH_CONTAINERS), kaldi=list(KALDI_CONTAINERS)),
        utterance_sets=dict(
            mono="normal x2, too short for a frame, one sample, all zeros, 2L zeros + signal, signal + 2L zeros, "
                 "float64 with peak amplitude 1e-4 (torch tool, array containers)",
            ch0_ch1="2-channel, 3-channel, 2-channel too short, 1-channel (C,S) with --channel 0/1 "
                    "(array containers for the torch tool; kaldi: multi-channel wav; --channel 1 excludes "
                    "the 1-channel utterance for the kaldi tool)",
            mindur="kaldi tool: --min-duration 0.0015 excludes the one-sample utterance",
            rate="kaldi tool: one utterance sampled at 2000 Hz instead of 1000"),
        validity="preemph_abs/abs_preemph only for the kaldi tool (the torch tool supports only the two "
                 "built-in pre-processors); multi-channel sets only for array containers (torch tool); "
                 "utterances whose reference pipeline raises are left out of the input (skipped)")
    hpts = [(HIST_DEPTH[tier_], i) for i in range(len(_hist_calls()))]
    # banks: tool x every bank class / response kind x computer kind and framing x flags x pre x post
    bpres, bposts = ("none", "preemph"), ("none", "deltas_stack")
    if not quick:
        bposts += ("standardize",)
    bpts = [(tool, cn, pre, post) for tool, cn, pre, post in
            itertools.product(("torch", "kaldi"), bank_computers(), bpres, bposts)]
    lgpts = [("many", n) for n in MANY_COUNTS] + [
        ("long", tool, cn, pre, post) for tool, cn in (("torch", "none"), ("torch", "lg_stft"), ("kaldi", "lg_stft"))
        for pre in ("none", "preemph2") for post in ("none", "stack" if cn == "none" else "deltas_stack")]
    return [
        # first in the list: its children must start from the state "just imported" also when every
        # sub-check runs in one process (VERIF_NPROC=1)
        core.SubCheck(
            "histories", hpts, lambda p: _histories(p, seed),
            "tool runs in ONE interpreter: every sequence of 1..%d runs over the alphabet tool x computer "
            "{none (torch tool), stft/fbank, stft/gabor+energy, si/gabor} x pre {none, preemph} x post "
            "{none, [deltas, stack]} (%d runs; utterance set 'mono'), the sequences of a point one after "
            "the other in one forked child (state at its start: 'just imported'), the first violation of "
            "every signature confirmed by running its sequence alone in a fresh child: every run stores "
            "exactly the expected ids, each allclose to the reference pipeline, whatever ran before it in "
            "the same interpreter; non-trivial = a run that is not the first of its sequence" % (
                HIST_DEPTH[tier_], len(_hist_calls())),
            axes=dict(tool=["torch", "kaldi"], computer=["none (torch tool)"] + list(HIST_COMPS),
                      pre=["none", "preemph"], post=["none", "deltas_stack"], depth=HIST_DEPTH[tier_]),
            replay=lambda case: _histories_replay(case, seed), kind="histories"),
        core.SubCheck(
            "pipeline", pts, lambda p: _pipeline(p, seed),
            "tool x computer x pre x post x container; inner: utterance set x {inline JSON, JSON file, "
            "YAML file}: exactly the expected ids are stored, each allclose(rtol 1e-5) to the NumPy "
            "reference pipeline, and the three syntaxes store identical arrays; non-trivial = at least "
            "one utterance of the run has >= 1 frame",
            axes=axes, replay=lambda case: _pipeline_replay(case, seed)),
        core.SubCheck(
            "banks", bpts, lambda p: _banks(p, seed),
            "tool x bank {triangular real / analytic / on a re-parameterised linear scale, Fbank real / "
            "analytic, Gabor / Gabor erb + L2 on a linear scale with slope 3, gammatone / max_centered / order 2 "
            "on an octave scale from 30 Hz} x computer {STFT centered padded, STFT centered + kaldi_shift "
            "unpadded, STFT causal with a GammaWindow(order 2, peak 0.6), SI causal, SI centered unpadded with "
            "a GammaWindow(order 3, peak 0.7)} x (use_log, use_power, include_energy) in {TFF, TTT, FFT, FTF} "
            "x pre {none, preemph} x post {none, [deltas, stack]}; inner: configuration as inline JSON and as "
            "a block-style YAML file: exactly the expected ids are stored, each allclose to the NumPy reference "
            "pipeline (explicit construction), both syntaxes identical; non-trivial = at least one utterance "
            "has >= 1 frame",
            axes=dict(tool=["torch", "kaldi"], bank=BANK_VARIANTS, computer=BANK_SHAPES,
                      flags={k: dict(use_log=v[0], use_power=v[1], include_energy=v[2])
                             for k, v in BANK_FLAGS.items()},
                      pre=list(bpres), post=list(bposts), syntax=list(BANK_SYNTAXES), utterance_set="mono"),
            replay=lambda case: _pipeline_replay(case, seed)),
        core.SubCheck(
            "large", lgpts, lambda p: _large(p, seed),
            "inputs larger than any block a tool may use: (a) the torch tool on maps of %r utterances with "
            "40-character ids (map text beyond 64 KiB / 128 KiB; raw samples); (b) tool x computer {none "
            "(torch tool), STFT with 100-sample frames} x pre {none, [preemph, preemph 0.5]} x post {none, "
            "[deltas, stack] (raw samples: [stack]; Deltas over 131073 rows takes seconds)} on one run holding utterances of %r samples: exactly the expected ids are "
            "stored, each allclose to the NumPy reference pipeline; non-trivial = an utterance with >= 1 "
            "frame is expected" % (MANY_COUNTS, LONG_LENGTHS),
            axes=dict(many=list(MANY_COUNTS), long_lengths=list(LONG_LENGTHS),
                      computer=dict(lg_stft=COMPUTERS["lg_stft"])),
            replay=lambda case: _large_replay(case, seed), chunk=1),
        core.SubCheck(
            "seed", spts, lambda p: _seed_case(p, seed),
            "tool x computer x dither list x post: --seed 7 twice (different global RNG states) and as "
            "JSON/YAML files => identical bytes; non-trivial = --seed 8 changes the bytes",
            axes=dict(dither=DITHERS, post=["none", "deltas_stack"], seed_values=list(SEED_VALUES)),
            replay=lambda case: _seed_replay(case, seed)),
        core.SubCheck(
            "seed_processes", ppts, lambda p: _seed_processes(p, seed),
            "tool x computer; per point one FRESH INTERPRETER per str-hash salt PYTHONHASHSEED in {0, 1, 2, "
            "unset = random, as a user has it} runs the whole job lattice pre-processors {none, dither, "
            "[dither, preemph], [preemph, dither 0.5]} x post {none, [deltas, stack]} x --seed {0, 1, 7, "
            "2**31-1} on 13 utterances (the tools' entry functions, one call after the other; global numpy / "
            "torch generators in a different state in every interpreter and job): for every job the bytes "
            "written are identical in all four interpreters; non-trivial = a dither job whose four seed "
            "values give four different outputs",
            axes=dict(salts=list(HASH_SALTS), pre=PROC_PRES, post=["none", "deltas_stack"],
                      seed_values=list(SEED_VALUES), ids=list(ID_ALPHABET)),
            replay=lambda case: _seed_processes_replay(case, seed), kind="real_runs", chunk=1),
        core.SubCheck(
            "manifest", mpts, lambda p: _manifest(p, seed),
            "torch tool with --manifest: computer x container x id set (ids that are prefixes / substrings "
            "of one another, equal as numbers, differ in case only) x map order {given, reversed} x file "
            "naming; inner: EVERY subset of the ids already listed in the manifest x {lines in map order, "
            "reversed}: exactly the unlisted ids are stored (as <prefix><id><suffix>), each allclose to the "
            "reference pipeline; non-trivial = the manifest is neither empty nor complete",
            axes=dict(id_sets=MANIFEST_ID_SETS, map_order=["fwd", "rev"], containers=list(mconts),
                      naming={k: NAMINGS[k] for k in mnames}, computers=ocomps,
                      manifest="all 16 subsets x line order {map order, reversed}"),
            replay=lambda case: _case_replay(case, seed)),
        core.SubCheck(
            "framing", fpts, lambda p: _framing(p, seed),
            "tool x {causal, centered, centered+kaldi_shift} x frame length {even, odd} x frame shift "
            "{even, odd} (STFT; SI: style x shift) x post; inner: one utterance of EVERY length 0 (kaldi: "
            "1) .. 2L+2S in one run, plus an all-zero, two zero-padded and (torch tool) a quiet float64 utterance: every stored matrix allclose to the NumPy reference pipeline; "
            "non-trivial = utterances with at least three different frame counts were stored",
            axes=dict(tool=["torch", "kaldi"], frame_styles=[list(x) for x in FRAME_STYLES],
                      frame_length=list(FRAME_LENGTHS[tier_]), frame_shift=list(FRAME_SHIFTS[tier_]),
                      kinds=dict(stft="fbank bank, hamming, energy", si="gabor bank, hamming, energy"),
                      post={k: POSTS[k] for k in fposts}, lengths="0 (kaldi tool: 1) .. 2L+2S (SI: L=6)",
                      validity="kaldi_shift only for centered STFT; SI has no frame length; torch tool + "
                               "STFT: lengths L//2+1 <= N < L left out (C14 leaves the port open there); "
                               "utterances whose reference pipeline raises are left out (skipped)"),
            replay=lambda case: _case_replay(case, seed)),
        core.SubCheck(
            "options", opts_, lambda p: _options(p, seed),
            "boundary values of the command-line options and the id alphabet.  torch tool: computer x "
            "container x utterance set {mono, mono with --channel -1 spelled out, ids, 2/3-channel with "
            "--channel 0 / 1} x --preprocess / --postprocess {absent, '[]'} x file naming {default, prefix+suffix, both EMPTY, prefix only} x map file "
            "{plain, last line without newline}; kaldi tool: computer x {scp, ark} x utterance set {mono, "
            "ids, --channel 0, --channel 1, edge} x --preprocess / --postprocess {absent, '[]'} x --min-duration {absent, 0, 0.0015, 0.125 = exactly the "
            "duration of one utterance}: exactly the expected ids are stored (as <prefix><id><suffix>), "
            "each allclose to the reference pipeline; non-trivial = an utterance with >= 1 frame is expected",
            axes=dict(ids=list(ID_ALPHABET), naming=NAMINGS, min_duration=list(MIN_DURS),
                      empty_lists=[False, True],
                      edge_lengths=list(EDGE_LENGTHS), computers=ocomps,
                      validity="multi-channel sets only for array containers (torch tool)"),
            replay=lambda case: _case_replay(case, seed)),
    ]
