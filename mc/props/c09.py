"""C09 - the command-line tools store exactly what the library pipeline computes (engine L).

Both tools are called in-process on every point of a Cartesian lattice

    tool x computer x pre-processors x post-processors x input container
         (inner: utterance set x configuration syntax)

and every stored matrix is compared with the *reference pipeline* built from the
NumPy classes by explicit construction (no alias factory, no torch modules):

    samples -> channel pick -> PreProcessor.apply in order -> compute_full (or the raw
    samples as a column) -> PostProcessor.apply in order -> float32

The samples are integer valued (int16 range) so that every container holds exactly the
same values; the reference reads them back with read_signal and cross-checks them with
what was written.  Utterances for which the reference pipeline itself raises (e.g.
Standardize on an empty matrix) are outside the property's domain: they are left out of
the input set and counted as skipped.
"""
import itertools
import json
import os
import shutil
import struct
import sys
import tempfile
import wave

import numpy as np

from .. import cfg, computers, core, sig

LEVEL = "exploration"
ASSUMPTIONS = [
    "reference pipeline uses the library's own NumPy classes (Preemphasize, FrameComputer."
    "compute_full, Deltas/Stack/Standardize .apply with default arguments), constructed "
    "explicitly; their own correctness is C02/C03/C15/C16/C18",
    "sample values: integer-valued generic signals (int16 range) so that wav/sph/npy/pt/npz/hdf5 "
    "hold identical data; pydrobert-kaldi is trusted to read the feature table and the wave table",
    "multi-channel inputs are (C, S) arrays for the torch tool and multi-channel wav files for the "
    "kaldi tool (its wave reader is channels-first); a stereo wav given to the torch tool is outside "
    "the property's domain; signals with L//2+1 <= N < L are not in the utterance sets (C14 leaves "
    "the torch port open there)",
    "dither cannot be compared with a reference (different generators): only same --seed => "
    "identical bytes and syntax independence are demanded for it",
    "order of two Preemphasize filters is unobservable (they commute); order is made observable for "
    "the kaldi tool by a harness-defined non-linear PreProcessor and for post-processors by "
    "[deltas, stack]",
]

RATE = cfg.RATE

# ------------------------------------------------------------------ configurations

COMPUTERS = {
    # name -> configuration for cfg.make_computer (explicit construction)
    "stft_fbank": dict(kind="stft", bank="fbank", L=6, S=2, style="centered", kaldi=False,
                       window="hamming", pad=True, log=True, power=False, energy=False),
    "stft_gabor_e": dict(kind="stft", bank="gabor3", L=7, S=3, style="centered", kaldi=True,
                         window="hamming", pad=False, log=True, power=True, energy=True),
    "si_gabor": dict(kind="si", bank="gabor", S=2, style="causal", window="hamming", pad=True,
                     log=True, power=False, energy=False),
    # thorough only
    "stft_tri_causal": dict(kind="stft", bank="tri_an", L=5, S=2, style="causal", kaldi=False,
                            window=None, pad=True, log=False, power=False, energy=True),
    "si_gammatone_c": dict(kind="si", bank="gammatone", S=3, style="centered", window="hamming",
                           pad=False, log=True, power=True, energy=True),
    "stft_fbank_e": dict(kind="stft", bank="fbank", L=8, S=3, style="centered", kaldi=False,
                         window="hamming", pad=True, log=True, power=True, energy=True),
}

PRES = {
    "none": [],
    "preemph": ["preemph"],
    "preemph2": ["preemph", ["preemph", 0.5]],
    "preemph_abs": ["preemph", "verif_abs"],     # kaldi tool only: makes the order observable
    "abs_preemph": ["verif_abs", "preemph"],     # thorough, kaldi tool only
}
POST_ITEMS = {
    # item -> (alias used in the tool's configuration, keyword arguments)
    "deltas": ("deltas", {"num_deltas": 2}),
    "stack": ("stack", {"num_vectors": 2}),
    "standardize": ("standardize", {}),
    "deltas1": ("deltas", {"num_deltas": 1, "context_window": 1}),
    "stack3e": ("stack", {"num_vectors": 3, "pad_mode": "edge"}),
    "cmvn_novar": ("cmvn", {"norm_var": False}),
}
POSTS = {
    "none": [],
    "deltas": ["deltas"],
    "stack": ["stack"],
    "deltas_stack": ["deltas", "stack"],
    "standardize": ["standardize"],
    # thorough
    "stack_deltas": ["stack", "deltas"],
    "deltas1": ["deltas1"],
    "stack3e": ["stack3e"],
    "cmvn_novar": ["cmvn_novar"],
    "deltas_cmvn": ["deltas", "cmvn_novar"],
}
SYNTAXES = ("inline", "json_file", "yaml_file")
TORCH_CONTAINERS = ("npy", "wav", "pt", "npz", "hdf5", "sph")
ARRAY_CONTAINERS = ("npy", "pt", "npz", "hdf5")
KALDI_CONTAINERS = ("scp", "ark")


def _scale_json(s):
    if s == "linear":
        return {"name": "linear", "low_hz": 0.0}
    return s


def computer_json(name):
    """the same configuration as a JSON-able tree for the tool (goes through the alias factory)"""
    c = COMPUTERS[name]
    bank = dict(cfg.TINY_BANKS[c["bank"]])
    if "scaling_function" in bank:
        bank["scaling_function"] = _scale_json(bank["scaling_function"])
    d = {"name": c["kind"], "bank": bank, "frame_shift_ms": c["S"] + 0.5,
         "frame_style": c["style"], "include_energy": bool(c["energy"]),
         "pad_to_nearest_power_of_two": bool(c["pad"]), "use_log": bool(c["log"]),
         "use_power": bool(c["power"])}
    if c.get("window"):
        d["window_function"] = c["window"]
    if c["kind"] == "stft":
        d["frame_length_ms"] = c["L"] + 0.5
        d["kaldi_shift"] = bool(c["kaldi"])
    return d


def pre_json(spec):
    out = []
    for p in spec:
        out.append(p if isinstance(p, str) else {"name": p[0], "coeff": p[1]})
    return out


def post_json(spec):
    out = []
    for p in spec:
        alias, kw = POST_ITEMS[p]
        out.append(dict(kw, name=alias) if kw else alias)
    return out


_CUSTOM = {}


def _ensure_custom():
    """a harness-defined, non-linear PreProcessor (user extensions are part of the tool's
    interface: it resolves any registered alias)"""
    if "abs" not in _CUSTOM:
        from pydrobert.speech import pre

        class VerifAbs(pre.PreProcessor):
            aliases = {"verif_abs"}

            def apply(self, signal, axis=None, in_place=False):
                # non-linear, and not channel-wise: a user pre-processor may rely on the documented
                # "applied to 1D signals only" (axis 0 is time for the selected channel)
                return np.abs(signal) - 0.25 * signal + 0.125 * np.roll(signal, 1, axis=0)

        _CUSTOM["abs"] = VerifAbs
    return _CUSTOM["abs"]


def make_pres(spec):
    from pydrobert.speech import pre

    out = []
    for p in spec:
        if p == "preemph":
            out.append(pre.Preemphasize())
        elif p == "verif_abs":
            out.append(_ensure_custom()())
        else:
            out.append(pre.Preemphasize(coeff=p[1]))
    return out


def make_posts(spec):
    from pydrobert.speech import post

    classes = {"deltas": post.Deltas, "stack": post.Stack, "standardize": post.Standardize,
               "cmvn": post.Standardize}
    return [classes[POST_ITEMS[p][0]](**POST_ITEMS[p][1]) for p in spec]


# ------------------------------------------------------------------ YAML / syntax

def _yaml_scalar(v):
    if v is True:
        return "true"
    if v is False:
        return "false"
    if v is None:
        return "null"
    if isinstance(v, (int, float)):
        return repr(v)
    if isinstance(v, str) and v.replace("_", "").isalnum() and not v[0].isdigit() \
            and v.lower() not in ("true", "false", "null", "yes", "no", "on", "off"):
        return v
    if isinstance(v, (dict, list)) and not v:
        return "{}" if isinstance(v, dict) else "[]"
    return json.dumps(v)


def to_yaml(o, ind=0):
    """block-style YAML written by hand (so that the YAML file is not merely JSON)"""
    sp = "  " * ind
    if isinstance(o, dict) and o:
        out = ""
        for k, v in o.items():
            if isinstance(v, (dict, list)) and v:
                out += "%s%s:\n%s" % (sp, k, to_yaml(v, ind + 1))
            else:
                out += "%s%s: %s\n" % (sp, k, _yaml_scalar(v))
        return out
    if isinstance(o, list) and o:
        out = ""
        for v in o:
            if isinstance(v, (dict, list)) and v:
                body = to_yaml(v, ind + 1)
                out += sp + "- " + body[len(sp) + 2:]
            else:
                out += "%s- %s\n" % (sp, _yaml_scalar(v))
        return out
    return sp + _yaml_scalar(o) + "\n"


def config_arg(tree, syntax, d, stem):
    if syntax == "inline":
        return json.dumps(tree)
    if syntax == "json_file":
        p = os.path.join(d, stem + ".json")
        with open(p, "w") as f:
            json.dump(tree, f, indent=2)
        return p
    p = os.path.join(d, stem + ".yaml")
    with open(p, "w") as f:
        f.write("# written by the harness\n" + to_yaml(tree))
    return p


# ------------------------------------------------------------------ data

def samples(seed, n, k):
    x = np.round(sig.signal(seed, n, offset=100 + k) * 1000.0)
    return np.clip(x, -32000, 32000).astype(np.int16)


def utterances(setname, comp_name, seed):
    """-> list of (utt id, int16 array (S,) or (C, S), rate, note)"""
    c = COMPUTERS.get(comp_name)
    L = c.get("L", 6) if c else 6
    short = max(L // 2, 1) if (c and c["kind"] == "stft") else 2
    if setname in ("mono", "mindur", "rate"):
        u = [("ua", samples(seed, 3 * L + 5, 0), RATE, "normal"),
             ("ub", samples(seed, 2 * L + 2, 1), RATE, "normal"),
             ("us", samples(seed, short, 2), RATE, "short"),
             ("uo", samples(seed, 1, 3), RATE, "one")]
        if setname == "rate":
            u.insert(1, ("ur", samples(seed, 3 * L + 1, 4), 2 * RATE, "rate"))
        return u
    if setname in ("ch0", "ch1"):
        return [("va", np.stack([samples(seed, 3 * L + 4, 5), samples(seed, 3 * L + 4, 6)]), RATE, "normal"),
                ("vb", np.stack([samples(seed, 2 * L + 3, 7 + j) for j in range(3)]), RATE, "normal"),
                ("vs", np.stack([samples(seed, short, 10), samples(seed, short, 11)]), RATE, "short"),
                ("vm", samples(seed, 2 * L + 1, 12)[None], RATE, "one_channel")]
    raise core.HarnessError("unknown set %r" % setname)


def write_wav(path, x, rate):
    w = wave.open(path, "wb")
    w.setnchannels(1 if x.ndim == 1 else x.shape[0])
    w.setsampwidth(2)
    w.setframerate(rate)
    w.writeframes(np.ascontiguousarray(x.T if x.ndim == 2 else x).astype("<i2").tobytes())
    w.close()


def write_sph(path, x, rate):
    head = ("NIST_1A\n   1024\nsample_count -i %d\nsample_n_bytes -i 2\nchannel_count -i 1\n"
            "sample_byte_format -s2 01\nsample_rate -i %d\nsample_coding -s3 pcm\nend_head\n" % (
                len(x), rate)).encode()
    with open(path, "wb") as f:
        f.write(head + b" " * (1024 - len(head)) + x.astype("<i2").tobytes())


def write_inputs(d, container, utts):
    """-> list of (utt, path-as-listed-in-the-map)"""
    import h5py
    import torch

    out = []
    if container == "npz":
        p = os.path.join(d, "all.npz")
        np.savez(p, **{u: x for u, x, _, _ in utts})
        return [(u, p) for u, _, _, _ in utts]
    if container == "hdf5":
        p = os.path.join(d, "all.hdf5")
        with h5py.File(p, "w") as f:
            for u, x, _, _ in utts:
                f.create_dataset(u, data=x)
        return [(u, p) for u, _, _, _ in utts]
    for u, x, rate, _ in utts:
        p = os.path.join(d, "%s.%s" % (u, container))
        if container == "npy":
            np.save(p, x)
        elif container == "pt":
            torch.save(torch.from_numpy(x.copy()), p)
        elif container == "wav":
            write_wav(p, x, rate)
        elif container == "sph":
            write_sph(p, x, rate)
        else:
            raise core.HarnessError(container)
        out.append((u, p))
    return out


class quiet:
    """the tools log to fd 2 (Kaldi's C++ logger included)"""

    def __enter__(self):
        sys.stderr.flush()
        self.saved = os.dup(2)
        dn = os.open(os.devnull, os.O_WRONLY)
        os.dup2(dn, 2)
        os.close(dn)

    def __exit__(self, *a):
        sys.stderr.flush()
        os.dup2(self.saved, 2)
        os.close(self.saved)


def _torch():
    import torch

    if not _CUSTOM.get("threads"):
        torch.set_num_threads(1)
        _CUSTOM["threads"] = True
    return torch


def call_tool(tool, args):
    """-> ('ok', rc) | ('exc', type, msg)"""
    import logging
    import warnings

    from pydrobert.speech import command_line

    fn = command_line.compute_feats_from_kaldi_tables if tool == "kaldi" \
        else command_line.signals_to_torch_feat_dir
    with quiet(), warnings.catch_warnings():
        warnings.simplefilter("ignore")
        try:
            r = computers.call(fn, list(args))
        except SystemExit as e:  # argparse
            r = ("exc", "SystemExit", str(e.code))
    lg = logging.getLogger(sys.argv[0])
    for h in list(lg.handlers):   # the tool adds one stream handler per call
        lg.removeHandler(h)
    return r


# ------------------------------------------------------------------ reference pipeline

def reference(x, comp, pres, posts):
    """x: 1-D float64 samples.  -> (features float32, features before post-processing float32)"""
    import warnings

    with warnings.catch_warnings():
        warnings.simplefilter("ignore")
        for p in pres:
            x = p.apply(x)
        feats = x[:, None] if comp is None else comp.compute_full(x)
        before = feats
        for q in posts:
            feats = q.apply(feats)
    return np.asarray(feats).astype(np.float32), np.asarray(before).astype(np.float32)


def close(got, want):
    if got.shape != want.shape:
        return False
    if not want.size:
        return True
    scale = max(1.0, float(np.max(np.abs(want))))
    return bool(np.all(np.abs(got.astype(np.float64) - want) <= 1e-5 * np.abs(want) + 2e-6 * scale))


def _comp_tags(comp_name):
    if comp_name == "none":
        return dict(comp="none", bank_real=None, energy=False)
    c = COMPUTERS[comp_name]
    return dict(comp=c["kind"], bank_real=c["bank"] in ("tri", "fbank"), energy=bool(c["energy"]))


# ------------------------------------------------------------------ one tool run

def run_case(case, seed, keep=None):
    """case: dict(tool, computer, pre, post, container, set, syntax[, dither_seed])
    -> dict(viol=[...], stored={utt: array}, skipped=n, nontrivial=bool, obs=...)"""
    from pydrobert.speech import util

    torch = _torch()
    tool, comp_name = case["tool"], case["computer"]
    pre_spec, post_spec = PRES[case["pre"]], POSTS[case["post"]]
    setname, container, syntax = case["set"], case["container"], case["syntax"]
    _ensure_custom()
    comp = None if comp_name == "none" else cfg.make_computer(COMPUTERS[comp_name])
    utts = utterances(setname, comp_name, seed)
    channel = {"ch0": 0, "ch1": 1}.get(setname, -1)
    min_dur = 0.0015 if setname == "mindur" else None
    tags0 = dict(tool=tool)
    tags0.update(_comp_tags(comp_name))
    viol, obs = [], []

    # ---- expectation per utterance
    expect, before, excluded, dropped = {}, {}, set(), 0
    kept = []
    for u, x, rate, note in utts:
        if tool == "kaldi" and rate != RATE:
            excluded.add(u)
            kept.append((u, x, rate, note))
            continue
        if min_dur is not None and x.shape[-1] / float(rate) < min_dur:
            excluded.add(u)
            kept.append((u, x, rate, note))
            continue
        if x.ndim == 2 and channel >= x.shape[0]:
            if tool == "torch":
                dropped += 1          # the torch tool raises for the whole run: outside the lattice
                continue
            excluded.add(u)
            kept.append((u, x, rate, note))
            continue
        mono = x if x.ndim == 1 else x[channel if channel >= 0 else 0]
        if x.ndim == 2 and x.shape[0] > 1 and channel < 0:
            raise core.HarnessError("multi-channel utterance without --channel is outside the domain")
        try:
            f, b = reference(mono.astype(np.float64), comp, make_pres(pre_spec), make_posts(post_spec))
        except Exception as e:  # reference pipeline undefined => outside the domain
            dropped += 1
            obs.append("ref_undefined:" + type(e).__name__)
            continue
        expect[u], before[u] = f, b
        kept.append((u, x, rate, note))
    utts = kept

    d = tempfile.mkdtemp(prefix="verif-")
    stored = {}
    try:
        ind = os.path.join(d, "in")
        os.makedirs(ind)
        # ---- inputs
        if tool == "kaldi":
            paths = []
            for u, x, rate, _ in utts:
                p = os.path.join(ind, u + ".wav")
                write_wav(p, x, rate)
                paths.append((u, p))
            if container == "scp":
                with open(os.path.join(d, "wav.scp"), "w") as f:
                    for u, p in paths:
                        f.write("%s %s\n" % (u, p))
                rspec = "scp:" + os.path.join(d, "wav.scp")
            else:
                with open(os.path.join(d, "wav.ark"), "wb") as f:
                    for u, p in paths:
                        with open(p, "rb") as g:
                            f.write(u.encode() + b" " + g.read())
                rspec = "ark:" + os.path.join(d, "wav.ark")
        else:
            paths = write_inputs(ind, container, utts)
            with open(os.path.join(d, "map"), "w") as f:
                for u, p in paths:
                    f.write("%s %s\n" % (u, p))
        # ---- the reference's view of the stored signal: read_signal must return what was written
        for (u, p), (_, x, rate, _) in zip(paths, utts):
            r = computers.call(lambda: util.read_signal(p, dtype=np.float64, key=u))
            want = x.astype(np.float64)
            if want.ndim == 2 and (tool == "kaldi" or container in ("wav", "sph")):
                want = want[0] if want.shape[0] == 1 else want.T   # time-first readers
            if r[0] != "ok" or r[1].shape != want.shape or not np.array_equal(r[1], want):
                # C11/C12's business, not C09's: the case is not judged
                return dict(viol=[], stored={}, skipped=len(utts) + dropped, nontrivial=False,
                            obs="read_signal_differs")
        # ---- arguments
        cargs = []
        if comp_name != "none":
            cargs.append(config_arg(computer_json(comp_name), syntax, d, "computer"))
        opts = []
        pj = list(case["dither"]) if case.get("dither") is not None else pre_json(pre_spec)
        if pj:
            opts += ["--preprocess", config_arg(pj, syntax, d, "pre")]
        if post_spec:
            opts += ["--postprocess", config_arg(post_json(post_spec), syntax, d, "post")]
        if channel >= 0:
            opts += ["--channel", str(channel)]
        if case.get("seed_opt") is not None:
            opts += ["--seed", str(case["seed_opt"])]
        if case.get("rng") is not None:   # dirty the global generators differently per run
            np.random.seed(case["rng"])
            torch.manual_seed(case["rng"])
        if tool == "kaldi":
            if min_dur is not None:
                opts += ["--min-duration", str(min_dur)]
            out_ark = os.path.join(d, "feats.ark")
            args = [rspec, "ark:" + out_ark] + cargs + opts
        else:
            out_dir = os.path.join(d, "out")
            args = [os.path.join(d, "map")] + cargs + [out_dir] + opts
        r = call_tool(tool, args)
        case_out = dict(case)
        # ---- outcome
        if r[0] != "ok":
            what = "exception"
            if setname == "rate":
                what = "rate_mismatch_raises"
            viol.append(core.violation(
                dict(tags0 if what == "exception" else dict(tool=tool), what=what, exc=r[1]),
                "%s tool raised %s: %s (set %s, %d utterances expected in the output)" % (
                    tool, r[1], r[2], setname, len(expect)), case_out))
            return dict(viol=viol, stored={}, skipped=dropped, nontrivial=True, obs="raised:" + r[1])
        rc = r[1]
        if tool == "kaldi":
            from pydrobert.kaldi.io import open as kaldi_open

            ids = []
            if os.path.exists(out_ark):
                with kaldi_open("ark:" + out_ark, "bm") as tab:
                    for k, v in tab.items():
                        ids.append(k)
                        stored[k] = np.array(v)
                if keep is not None:
                    with open(out_ark, "rb") as f:
                        keep["bytes"] = f.read()
        else:
            ids = []
            names = sorted(os.listdir(out_dir)) if os.path.isdir(out_dir) else []
            for nm in names:
                if not nm.endswith(".pt"):
                    ids.append(nm)
                    continue
                ids.append(nm[:-3])
                t = torch.load(os.path.join(out_dir, nm))
                stored[nm[:-3]] = t.numpy() if hasattr(t, "numpy") else np.asarray(t)
                if t.dtype != torch.float32:
                    viol.append(core.violation(dict(tags0, what="dtype"),
                                               "%s stored as %s, FloatTensor documented" % (nm, t.dtype),
                                               case_out))
            if keep is not None:
                keep["bytes"] = b"".join(open(os.path.join(out_dir, nm), "rb").read() for nm in names)
        if len(ids) != len(set(ids)):
            viol.append(core.violation(dict(tool=tool, what="extra_id", dup=True),
                                       "ids written more than once: %r" % ids, case_out))
        for u in sorted(set(expect) - set(ids)):
            viol.append(core.violation(
                dict(tool=tool, what="missing_id"),
                "utterance %s is not excluded by any option but is absent from the output (ids %r, rc %r)"
                % (u, ids, rc), case_out))
        for u in sorted(set(ids) - set(expect)):
            viol.append(core.violation(
                dict(tool=tool, what="extra_id", dup=False),
                "output holds %s, which is %s" % (
                    u, "excluded (rate / duration / channel)" if u in excluded else "not an input id"),
                case_out))
        if case.get("dither") is None:
            for u in sorted(set(expect) & set(stored)):
                got, want = stored[u], expect[u]
                empty = want.shape[0] == 0
                if tool == "kaldi" and empty and got.shape[0] == 0:
                    obs.append("ok_empty")    # a Kaldi matrix without rows has no columns either
                    continue
                if close(got, want):
                    obs.append("ok_empty" if empty else "ok")
                    continue
                if post_spec and close(got, before[u]) and not close(before[u], want):
                    viol.append(core.violation(
                        dict(tool=tool, what="postprocess_ignored"),
                        "%s: stored matrix %r equals the features BEFORE post-processing; after %s it "
                        "should have shape %r" % (u, got.shape, post_spec, want.shape), case_out))
                    continue
                if got.shape != want.shape:
                    viol.append(core.violation(
                        dict(tags0, what="shape", empty=bool(empty)),
                        "%s: stored shape %r, pipeline gives %r" % (u, got.shape, want.shape), case_out))
                    continue
                dmax = float(np.max(np.abs(got.astype(np.float64) - want)))
                viol.append(core.violation(
                    dict(tags0, what="values", empty=False),
                    "%s: max |stored - pipeline| = %.4g (|pipeline| max %.4g); first rows stored %r "
                    "pipeline %r" % (u, dmax, float(np.max(np.abs(want))), got[:1].tolist(),
                                     want[:1].tolist()), case_out))
        nontriv = any(v.shape[0] > 0 for v in expect.values())
        return dict(viol=viol, stored=stored, skipped=dropped, nontrivial=nontriv,
                    obs=sorted(set(obs)), rc=rc)
    finally:
        shutil.rmtree(d, ignore_errors=True)


# ------------------------------------------------------------------ sub-check: pipeline

def sets_for(tool, container):
    if tool == "kaldi":
        return ("mono", "ch0", "ch1", "mindur", "rate")
    if container in ARRAY_CONTAINERS:
        return ("mono", "ch0", "ch1")
    return ("mono",)


def _pipeline(pt, seed):
    tool, comp_name, pre, post, container = pt
    viol, evals, nontriv, skipped = [], 0, 0, 0
    obs = set()
    for setname in sets_for(tool, container):
        per_syntax = {}
        for syntax in SYNTAXES:
            case = dict(tool=tool, computer=comp_name, pre=pre, post=post, container=container,
                        set=setname, syntax=syntax)
            r = run_case(case, seed)
            evals += 1
            nontriv += 1 if r["nontrivial"] else 0
            skipped += r["skipped"]
            viol += r["viol"]
            o = r["obs"]
            obs.update(o if isinstance(o, list) else [o])
            per_syntax[syntax] = r["stored"]
        base = per_syntax["inline"]
        for syntax in SYNTAXES[1:]:
            other = per_syntax[syntax]
            same = set(base) == set(other) and all(
                base[k].shape == other[k].shape and np.array_equal(base[k], other[k]) for k in base)
            if not same:
                viol.append(core.violation(
                    dict(tool=tool, what="syntax_differs", syntax=syntax),
                    "the same configuration as %s gives different stored features than inline JSON "
                    "(ids %r vs %r)" % (syntax, sorted(other), sorted(base)),
                    dict(tool=tool, computer=comp_name, pre=pre, post=post, container=container,
                         set=setname, syntax=syntax, compare_with="inline")))
    return core.result(viol, evals=evals, nontrivial_count=nontriv, obs=sorted(obs), skipped=skipped,
                       sample=dict(tool=tool, computer=comp_name, pre=PRES[pre], post=POSTS[post],
                                   container=container, inner="utterance sets %s x 3 syntaxes"
                                   % (sets_for(tool, container),)))


def _pipeline_replay(case, seed):
    if case.get("compare_with"):
        a = run_case(dict(case, syntax=case["compare_with"]), seed)
        b = run_case(dict(case), seed)
        same = set(a["stored"]) == set(b["stored"]) and all(
            np.array_equal(a["stored"][k], b["stored"][k]) for k in a["stored"])
        v = [] if same else [core.violation(
            dict(tool=case["tool"], what="syntax_differs", syntax=case["syntax"]),
            "stored features differ between %s and %s" % (case["syntax"], case["compare_with"]), case)]
        return core.result(v + a["viol"] + b["viol"])
    r = run_case(case, seed)
    return core.result(r["viol"], nontrivial=r["nontrivial"], obs=r["obs"])


# ------------------------------------------------------------------ sub-check: seed / dither

DITHERS = {
    "dither": ["dither"],
    "dither_preemph": ["dither", "preemph"],
    "preemph_dither": ["preemph", {"name": "dither", "coeff": 0.5}],
}


def _seed_case(pt, seed):
    tool, comp_name, dname, post, container = pt
    viol = []
    base = dict(tool=tool, computer=comp_name, pre="none", post=post, container=container, set="mono",
                dither=DITHERS[dname])
    outs = {}
    runs = [("a", "inline", 7, 11), ("b", "inline", 7, 12), ("yaml", "yaml_file", 7, 13),
            ("json", "json_file", 7, 14), ("other", "inline", 8, 11)]
    for name, syntax, sd, rng in runs:
        keep = {}
        r = run_case(dict(base, syntax=syntax, seed_opt=sd, rng=rng), seed, keep=keep)
        viol += r["viol"]
        outs[name] = (keep.get("bytes"), r["stored"])
    case = dict(base, runs=[list(x) for x in runs])
    tags = dict(tool=tool)
    if outs["a"][0] is None or outs["a"][0] != outs["b"][0]:
        viol.append(core.violation(
            dict(tags, what="seed_not_reproducible"),
            "two runs with --seed 7 (global generators left in different states) wrote different "
            "bytes; ids %r / %r" % (sorted(outs["a"][1]), sorted(outs["b"][1])), case))
    for s in ("yaml", "json"):
        if outs["a"][0] != outs[s][0]:
            viol.append(core.violation(
                dict(tags, what="syntax_differs", syntax=s + "_file"),
                "--seed 7 with the configuration as a %s file wrote different bytes than inline JSON" % s,
                case))
    changed = outs["a"][0] != outs["other"][0]
    return core.result(viol, evals=len(runs), nontrivial=changed,
                       obs=(tool, comp_name, "seed_matters", changed,
                            sorted((k, list(v.shape)) for k, v in outs["a"][1].items())),
                       sample=dict(tool=tool, computer=comp_name, pre=DITHERS[dname], post=POSTS[post],
                                   container=container))


def _seed_replay(case, seed):
    pt = (case["tool"], case["computer"],
          [k for k, v in DITHERS.items() if v == case["dither"]][0], case["post"], case["container"])
    return _seed_case(pt, seed)


# ------------------------------------------------------------------

def subchecks(tier, seed, only=None):
    quick = tier == "quick"
    comps = ["stft_fbank", "stft_gabor_e", "si_gabor"]
    pres = ["none", "preemph", "preemph2"]
    posts = ["none", "deltas", "stack", "deltas_stack", "standardize"]
    kpres = pres + ["preemph_abs"]
    if not quick:
        comps += ["stft_tri_causal", "si_gammatone_c", "stft_fbank_e"]
        posts += ["stack_deltas", "deltas1", "stack3e", "cmvn_novar", "deltas_cmvn"]
        kpres += ["abs_preemph"]
    pts = []
    for comp_name in ["none"] + comps:
        for pre, post, cont in itertools.product(pres, posts, TORCH_CONTAINERS):
            pts.append(("torch", comp_name, pre, post, cont))
    for comp_name in comps:
        for pre, post, cont in itertools.product(kpres, posts, KALDI_CONTAINERS):
            pts.append(("kaldi", comp_name, pre, post, cont))
    spts = []
    for comp_name in ["none"] + comps:
        for dn, post in itertools.product(DITHERS, ("none", "deltas_stack")):
            spts.append(("torch", comp_name, dn, post, "npy"))
    for comp_name in comps:
        for dn, post in itertools.product(DITHERS, ("none", "deltas_stack")):
            spts.append(("kaldi", comp_name, dn, post, "scp"))
    axes = dict(
        tool=["torch", "kaldi"], computer=["none (torch tool only)"] + comps,
        computer_configs={k: COMPUTERS[k] for k in comps},
        pre={k: PRES[k] for k in kpres}, post={k: POSTS[k] for k in posts},
        syntax=list(SYNTAXES), container=dict(torch=list(TORCH_CONTAINERS), kaldi=list(KALDI_CONTAINERS)),
        utterance_sets=dict(
            mono="normal x2, too short for a frame, one sample",
            ch0_ch1="2-channel, 3-channel, 2-channel too short, 1-channel (C,S) with --channel 0/1 "
                    "(array containers for the torch tool; kaldi: multi-channel wav; --channel 1 excludes "
                    "the 1-channel utterance for the kaldi tool)",
            mindur="kaldi tool: --min-duration 0.0015 excludes the one-sample utterance",
            rate="kaldi tool: one utterance sampled at 2000 Hz instead of 1000"),
        validity="preemph_abs/abs_preemph only for the kaldi tool (the torch tool supports only the two "
                 "built-in pre-processors); multi-channel sets only for array containers (torch tool); "
                 "utterances whose reference pipeline raises are left out of the input (skipped)")
    return [
        core.SubCheck(
            "pipeline", pts, lambda p: _pipeline(p, seed),
            "tool x computer x pre x post x container; inner: utterance set x {inline JSON, JSON file, "
            "YAML file}: exactly the expected ids are stored, each allclose(rtol 1e-5) to the NumPy "
            "reference pipeline, and the three syntaxes store identical arrays; non-trivial = at least "
            "one utterance of the run has >= 1 frame",
            axes=axes, replay=lambda case: _pipeline_replay(case, seed)),
        core.SubCheck(
            "seed", spts, lambda p: _seed_case(p, seed),
            "tool x computer x dither list x post: --seed 7 twice (different global RNG states) and as "
            "JSON/YAML files => identical bytes; non-trivial = --seed 8 changes the bytes",
            axes=dict(dither=DITHERS, post=["none", "deltas_stack"]),
            replay=lambda case: _seed_replay(case, seed)),
    ]
