"""C11 - read_signal returns exactly what was stored, from a path or a stream (engine L).

  roundtrip    container x shape (rank 0 .. 5 where the container can store it) x stored dtype (point)
               x layout/key x access path (incl. wds_read_signal) x requested dtype (inner loop); files
               written with the container's own writer
  sph_reads    SPHERE (the one container whose reader is the library's own fixed-size read loop):
               byte order x channels 1..7 x frame counts on both sides of each of the first four
               16384-byte read boundaries x header size/layout x every access path (incl.
               wds_read_signal) x requested dtype
  errors       unrecognised names => IOError; stream without force_as => ValueError; unknown
               force_as => ValueError
  wds_garbage  wds_read_signal(key, bytes) for every key suffix (known and unknown) x {all 1-byte
               strings, all 2-byte strings over a 16-symbol alphabet of magic-number bytes, every
               prefix and 3 single-byte substitutions at every offset of one small valid file per
               container}: returns None or an ndarray, never raises.  Every batch runs in a forked
               child so that a native crash (or a hang) is recorded as a violation of that input
               instead of killing the check.
  rewrite      one path rewritten between reads (other values / other dtype, shape, sample width, byte order /
               other entry names; in place, remove + create, os.replace; time stamps put back): every read
               gives what was written last
  long_inputs  65535 .. 131073 frames x 1..3 channels (2**20 + 1 x 2 for the audio containers) through every
               reader and access
  file_objects every kind of binary file object (mc/refs/sphere.py STREAM_KINDS) for SPHERE, and for the other
               containers the kinds their own reader accepts
  stream_position  the same objects NOT at offset 0 when read_signal is called: payload after a junk preamble / after
               another payload (positioned by seek and by read), two payloads read one after the other; the payload
               that starts where the stream stands comes back (containers / kinds whose own reader supports it)
"""
import hashlib
import io
import os
import resource
import shutil
import signal
import tempfile
import wave

import numpy as np

from .. import core, sig
from ..refs import sphere as sph

LEVEL = "exploration"
ASSUMPTIONS = [
    "the containers' own writers (wave, soundfile/libsndfile, numpy.save/savez, torch.save, h5py, "
    "ndarray.tofile) and mc/refs/sphere.py are trusted to store what they are given",
    "sample values are an alphabet: one seeded sequence per array, integer types with their "
    "extreme values in front where every requested cast is defined (16-bit and 8-bit types, 32-bit "
    "wav); wider integers stay inside int32 and floats inside +-1000 (stored dtypes 'int64!' / 'uint64!': "
    "odd values over the whole 64-bit range, nearly all beyond 2**53, which no float64 intermediate "
    "carries); a requested integer dtype "
    "that cannot hold every stored value is outside the lattice (skipped), so the 'final cast' is "
    "never asked to overflow",
    "roundtrip shapes of npy / npz / pt / hdf5: rank 0 (a 0-d array / scalar dataset) to rank 5, with "
    "singleton and empty axes; audio containers and raw binary cannot store rank 0 or rank > 2",
    "raw binary has no dtype of its own: `dtype` there is the interpretation (float64 by default), "
    "so only (stored float64, dtype None) and (stored T, dtype T) are in the property's domain",
    "garbage for wds_read_signal is the stated finite family, not all byte strings",
    "rewrite: time stamps are put back with os.utime (a cache keyed by name and modification time is as wrong "
    "as one keyed by name); long_inputs: lengths around 2**16, 2**17 + 1 and 2**20 + 1 frames stand for 'long'; "
    "file_objects: for containers read by a third-party reader a kind of file object is in the property's "
    "domain iff that reader itself returns the stored array from such an object",
    "stream_position: 'from an open binary stream' is read as 'the container that starts where the stream stands "
    "at the time of the call' wherever the container's own reader, given the same object in the same position, "
    "returns it (SPHERE: always; where the SPHERE reader leaves the stream afterwards is left open)",
    "sph_reads: only 16-bit PCM SPHERE is in C11 (mu-law/A-law files come back expanded, i.e. not "
    "bit-identical to what is stored; they are C12's); file lengths are the stated alphabet around "
    "the reader's 16384-byte read size, header sizes 1024/1025/1500/2048/4000",
]

# ------------------------------------------------------------------ containers

AUDIO_SHAPES = [(1,), (7,), (7, 2), (5, 3)]
# rank 0 (a scalar dataset / 0-d array: every one of these four containers can store one), rank 1..5,
# singleton and empty axes at every rank
ARRAY_SHAPES = [(), (1,), (7,), (1, 1), (7, 1), (7, 2), (5, 3), (0,), (0, 2), (2, 3, 4), (3, 0, 2),
                (2, 1, 3, 2), (1, 2, 1, 2, 1)]
# "T!" = dtype T with values over its whole range (64-bit integers beyond 2**53, which no float64
# intermediate can carry)
ARRAY_DTYPES = ["int16", "int32", "int64", "uint8", "float32", "float64", "int8", "uint16", "float16",
                "int64!", "uint64!"]
REQUESTED = [None, "int16", "int32", "float32", "float64"]

CONTAINERS = {
    # name: (suffix, force_as values, shapes, stored dtypes, stream kinds)
    "wav16": (".wav", ["wav", "soundfile"], AUDIO_SHAPES, ["int16"], ["file", "bytesio"]),
    "wav32": (".wav", ["wav", "soundfile"], AUDIO_SHAPES, ["int32"], ["file", "bytesio"]),
    "flac": (".flac", ["flac", "soundfile"], AUDIO_SHAPES, ["int16"], ["file", "bytesio"]),
    "aiff": (".aiff", ["aiff", "soundfile"], AUDIO_SHAPES, ["int16"], ["file", "bytesio"]),
    "npy": (".npy", ["npy"], ARRAY_SHAPES, ARRAY_DTYPES, ["file", "bytesio"]),
    "npz": (".npz", ["npz"], ARRAY_SHAPES, ARRAY_DTYPES, ["file", "bytesio"]),
    "pt": (".pt", ["pt"], ARRAY_SHAPES, ARRAY_DTYPES, ["file", "bytesio"]),
    "hdf5": (".hdf5", ["hdf5"], ARRAY_SHAPES, ARRAY_DTYPES, ["file", "bytesio"]),
    "raw": (None, ["file"], [(1,), (7,), (0,)], ARRAY_DTYPES, ["file"]),
    "sph01": (".sph", ["sph"], AUDIO_SHAPES, ["int16"], ["file", "bytesio"]),
    "sph10": (".sph", ["sph"], AUDIO_SHAPES, ["int16"], ["file", "bytesio"]),
}


def _values(seed, shape, dtype, offset=0, full_range=False):
    n = int(np.prod(shape))
    x = sig.signal(seed, n, offset=offset)
    if str(dtype).endswith("!"):
        dtype, full_range = str(dtype)[:-1], True
    dt = np.dtype(dtype)
    if dt.itemsize == 8 and dt.kind in "iu" and full_range:
        # |x| < 2**4: odd values up to ~2**62 in magnitude, nearly all of them beyond 2**53
        v = np.round(x * 2.0 ** 40).astype(np.int64) * (1 << 18) + 12345
        info = np.iinfo(dt)
        if dt.kind == "u":
            v = v.astype(np.uint64) + np.uint64(1 << 63)
            ext = [info.max, 0, (1 << 53) + 1, (1 << 63) + 1]
        else:
            ext = [info.max, info.min, (1 << 53) + 1, -(1 << 53) - 1]
        k = min(n, len(ext))
        v = v.astype(dt)
        v[:k] = np.array(ext[:k], dtype=dt)
        return v.reshape(shape)
    if dt.kind == "f":
        v = (x * 100.0).astype(dt)
    else:
        info = np.iinfo(dt)
        if dt.itemsize <= 2 or full_range:
            lo, hi = int(info.min), int(info.max)
        else:
            lo, hi = -(2 ** 30), 2 ** 30
        span = hi - lo + 1
        scale = min(span / 8.0, 1e9)
        v = ((np.round(x * scale).astype(np.int64) - lo) % span + lo)
        ext = [hi, lo, 0, 1] if lo < 0 else [hi, lo, 1]
        k = min(n, len(ext))
        v[:k] = ext[:k]
        v = v.astype(dt)
    return v.reshape(shape)


def _layouts(container):
    """(layout, key, which) : which array of the file the call must return"""
    if container == "npz":
        return [("positional", None, "sig"), ("positional", "arr_1", "other"),
                ("named", "sig", "sig"), ("named", "a", "other"),
                ("compressed", None, "sig"), ("compressed", "b", "other")]
    if container == "hdf5":
        return [("single_nested", None, "sig"), ("single_nested", "a/b/d/f", "sig"),
                ("multi", "a/b/d/f", "sig"), ("multi", "g", "other"), ("multi", "a/x", "other2"),
                ("multi", None, "any")]
    return [(None, None, "sig")]


def _write(container, layout, arr, other, other2, path):
    if container in ("wav16", "wav32"):
        w = wave.open(path, "wb")
        w.setnchannels(1 if arr.ndim == 1 else arr.shape[1])
        w.setsampwidth(arr.dtype.itemsize)
        w.setframerate(8000)
        w.writeframes(arr.astype(arr.dtype.newbyteorder("<")).tobytes("C"))
        w.close()
    elif container in ("flac", "aiff"):
        import soundfile as sf

        sf.write(path, arr, 8000, subtype="PCM_16", format=container.upper())
    elif container == "npy":
        np.save(path, arr)
    elif container == "npz":
        if layout == "positional":
            np.savez(path, arr, other)
        elif layout == "named":
            np.savez(path, a=other, sig=arr, arr_0=other2)
        else:
            np.savez_compressed(path, arr, b=other)
    elif container == "pt":
        import torch

        torch.save(torch.from_numpy(np.array(arr)), path)
    elif container == "hdf5":
        import h5py

        with h5py.File(path, "w") as f:
            f.create_group("a/b/c")
            f.create_group("a/b/d/e")
            f.create_dataset("a/b/d/f", data=arr)
            if layout == "multi":
                f.create_dataset("g", data=other)
                f.create_dataset("a/x", data=other2)
    elif container == "raw":
        arr.tofile(path)
    elif container in ("sph01", "sph10"):
        with open(path, "wb") as f:
            f.write(sph.write_bytes("pcm" + container[3:], arr, "extra"))
    else:
        raise core.HarnessError(container)


def _call(fn):
    try:
        return ("ok", fn())
    except core.HarnessError:
        raise
    except Exception as e:
        return ("exc", e)


def _accesses(container):
    suffix, forces, _, _, streams = CONTAINERS[container]
    acc = []
    if suffix is not None:
        acc += [("path", None), ("path_dotted", None)]
    for f in forces:
        acc.append(("path", f))
        for s in streams:
            acc.append((s, f))
    return acc


def _rt_accesses(container):
    """roundtrip only: also wds_read_signal("utt" + suffix, bytes), which has neither dtype nor key"""
    return _accesses(container) + ([("wds", None)] if CONTAINERS[container][0] is not None else [])


def _read(path, dotted, access, force, dtype, key):
    from pydrobert.speech import util

    kw = {}
    if key is not None:
        kw["key"] = key
    if force is not None:
        kw["force_as"] = force
    if access == "path":
        return _call(lambda: util.read_signal(path, dtype=dtype, **kw))
    if access == "path_dotted":
        return _call(lambda: util.read_signal(dotted, dtype=dtype, **kw))
    if access == "file":
        with open(path, "rb") as f:
            return _call(lambda: util.read_signal(f, dtype=dtype, **kw))
    if access == "bytesio":
        with open(path, "rb") as f:
            b = io.BytesIO(f.read())
        return _call(lambda: util.read_signal(b, dtype=dtype, **kw))
    if access == "wds":
        if dtype is not None or key is not None or force is not None:
            raise core.HarnessError("wds_read_signal takes neither dtype, key nor force_as")
        with open(path, "rb") as f:
            data = f.read()
        return _call(lambda: util.wds_read_signal("utt" + os.path.splitext(path)[1], data))
    raise core.HarnessError(access)


def _clean(msg):
    """exception text without run-specific parts (temp dir names, object addresses)"""
    import re

    msg = re.sub(r"/[^\s'\"]*verif-[A-Za-z0-9_]+", "<tmp>", str(msg))
    return re.sub(r"0x[0-9a-fA-F]+", "0x..", msg)[:300]


class _Tmp:
    def __enter__(self):
        self.d = tempfile.mkdtemp(prefix="verif-")
        return self.d

    def __exit__(self, *a):
        shutil.rmtree(self.d, ignore_errors=True)


def _arrays(container, shape, dtype, seed):
    arr = _values(seed, shape, dtype, full_range=(container == "wav32"))
    other = _values(seed, (3,), dtype, offset=1)
    other2 = _values(seed, (2, 2), dtype, offset=2)
    return arr, other, other2


def _rt_file(container, layout, shape, dtype, seed, tmp):
    suffix = CONTAINERS[container][0]
    arr, other, other2 = _arrays(container, shape, dtype, seed)
    name = "sig" + (suffix or ".f64")
    path = os.path.join(tmp, name)
    _write(container, layout, arr, other, other2, path)
    ddir = os.path.join(tmp, "d.npz.dir", "v1.2")       # dots (and another suffix) in directories
    os.makedirs(ddir, exist_ok=True)
    dotted = os.path.join(ddir, "my.sig.v2" + (suffix or ""))
    shutil.copyfile(path, dotted)
    return path, dotted, dict(sig=arr, other=other, other2=other2)


def _rt_check(container, layout, key, which, access, force, req, path, dotted, arrays, case):
    stored_dt = arrays["sig"].dtype
    if container == "raw":
        # dtype is the interpretation of the bytes, not a cast
        if not ((req is None and stored_dt == np.float64) or (req is not None and np.dtype(req) == stored_dt)):
            return None, "skipped"
    if req is not None and np.dtype(req).kind in "iu":
        # the final cast must be defined: every stored value inside the requested integer range
        # (an overflowing cast is wrap-around in numpy and saturation in HDF5; the property does
        # not choose)
        info = np.iinfo(req)
        for name in ([which] if which != "any" else ["sig", "other", "other2"]):
            a = arrays[name]
            if a.size and not (a.min().item() >= info.min and a.max().item() <= info.max):
                return None, "skipped"
    if access == "wds" and (req is not None or key is not None):
        return None, "skipped"
    r = _read(path, dotted, access, force, req, key)
    tags = dict(what="roundtrip", container=container,
                via=("wds" if access == "wds" else "inferred" if force is None else force),
                stream=(access in ("file", "bytesio", "wds")), rank0=(arrays["sig"].ndim == 0))
    desc = "%s %r stored %s layout=%s key=%r access=%s force_as=%r dtype=%r" % (
        container, arrays["sig"].shape, stored_dt, layout, key, access, force, req)
    if r[0] == "exc":
        return core.violation(dict(tags, what="roundtrip_exception", exc=type(r[1]).__name__),
                              "%s: raised %s: %s" % (desc, type(r[1]).__name__, _clean(r[1])), case), "exc"
    got = r[1]
    if not isinstance(got, np.ndarray):
        return core.violation(dict(tags, what="roundtrip_type"), "%s: returned %s" % (
            desc, type(got).__name__), case), "type"
    cands = [arrays[which]] if which != "any" else [arrays["sig"], arrays["other"], arrays["other2"]]
    cands = [c if req is None else c.astype(req) for c in cands]
    problem = None
    for want in cands:
        if got.shape != want.shape:
            p = ("shape", "shape %r, stored %r" % (got.shape, want.shape))
        elif got.dtype != want.dtype:
            p = ("dtype", "dtype %s, expected %s" % (got.dtype, want.dtype))
        elif not np.array_equal(got, want):
            bad = np.argwhere(got != want)
            p = ("values", "differs at %r: got %r, stored %r" % (
                bad[0].tolist(), got[tuple(bad[0])].item(), want[tuple(bad[0])].item()))
        else:
            return None, "ok"
        problem = problem or p
    return core.violation(dict(tags, aspect=problem[0], cast=(req is not None), keyed=(key is not None)),
                          "%s: %s" % (desc, problem[1]), case), problem[0]


def _roundtrip(pt, seed):
    container, shape, dtype = pt
    shape = tuple(shape)
    viol, obs, evals, skipped = [], set(), 0, 0
    with _Tmp() as tmp:
        files = {}
        for layout, key, which in _layouts(container):
            if layout not in files:
                sub = os.path.join(tmp, str(layout))
                os.makedirs(sub)
                files[layout] = _rt_file(container, layout, shape, dtype, seed, sub)
            path, dotted, arrays = files[layout]
            for access, force in _rt_accesses(container):
                for req in REQUESTED:
                    case = dict(kind="roundtrip", container=container, shape=list(shape), stored=dtype,
                                layout=layout, key=key, which=which, access=access, force_as=force,
                                dtype=req)
                    v, o = _rt_check(container, layout, key, which, access, force, req, path, dotted,
                                     arrays, case)
                    if o == "skipped":
                        skipped += 1
                        continue
                    evals += 1
                    obs.add((o, req, key is not None))
                    if v is not None:
                        viol.append(v)
    return core.result(viol, evals=evals, nontrivial_count=evals if int(np.prod(shape)) else 0,
                       skipped=skipped, obs=sorted(map(str, obs)),
                       sample=dict(container=container, shape=list(shape), stored=dtype,
                                   layouts=[list(map(str, l)) for l in _layouts(container)],
                                   accesses=[list(map(str, a)) for a in _rt_accesses(container)],
                                   requested=REQUESTED))


def _replay_roundtrip(case, seed):
    with _Tmp() as tmp:
        path, dotted, arrays = _rt_file(case["container"], case["layout"], tuple(case["shape"]),
                                        case["stored"], seed, tmp)
        v, _ = _rt_check(case["container"], case["layout"], case["key"], case["which"], case["access"],
                         case["force_as"], case["dtype"], path, dotted, arrays, case)
    return core.result([v] if v is not None else [])


# ------------------------------------------------------------------ SPHERE files of several reads

SPH_READ = 16384          # the reader's fixed read size (src/pydrobert/speech/_sphere.py:copy_samples)
SPH_KMAX = {"quick": 4, "thorough": 6}
# 1024 bytes with optional fields; 1025, 1500 and 4000 bytes (not multiples of 1024); 2048 bytes
# with every mandatory field beyond byte 1024
SPH_HEADERS = ["extra", "h1025", "h1500", "extra2048", "h4000"]
SPH_CHANNELS = [1, 2, 3, 4, 5, 6, 7]               # frames of 2..14 bytes; 6, 10, 14 do not divide 16384
# "all channel counts": ONE frame as large as / larger than the reader's 16384-byte read (a few frames each)
SPH_WIDE_CHANNELS = [8191, 8192, 8193, 16385]
SPH_WIDE_COUNTS = [1, 2, 3]


def _sph_counts(channels, kmax):
    """frame counts on both sides of each of the first kmax read boundaries: with f = 2*channels
    bytes per frame and q = 16384 // f: k*q-1, k*q, k*q+1 and floor(k*16384/f)-1 .. +1, k = 1..kmax"""
    fs = 2 * channels
    q = SPH_READ // fs
    out = set()
    for k in range(1, kmax + 1):
        for base in (k * q, (k * SPH_READ) // fs):
            out.update((base - 1, base, base + 1))
    return sorted(out)


def _sph_accesses():
    # wds_read_signal(key, bytes) has no dtype argument: it is paired with dtype None only
    return _accesses("sph01") + [("wds", None)]


def _sph_file(container, channels, count, header, seed, tmp, cache=None):
    """-> path, dotted path, bytes, stored array (the sample data is encoded once per point)"""
    shape = (count,) if channels == 1 else (count, channels)
    key = (container, channels, count)
    if cache is None or key not in cache:
        arr = _values(seed, shape, "int16")
        body = sph.encode_samples("pcm" + container[3:], arr)
        if body[:4] == b"ajkg":
            raise core.HarnessError("sample data starts with the shorten magic")
        if cache is not None:
            cache[key] = (arr, body)
    else:
        arr, body = cache[key]
    data = sph.header_variant(header, "pcm" + container[3:], channels, count) + body
    sub = os.path.join(tmp, header)
    ddir = os.path.join(sub, "d.npz.dir", "v1.2")
    os.makedirs(ddir, exist_ok=True)
    path, dotted = os.path.join(sub, "sig.sph"), os.path.join(ddir, "my.sig.v2.sph")
    for p in (path, dotted):
        with open(p, "wb") as f:
            f.write(data)
    return path, dotted, data, arr


def _sph_check(case, path, dotted, data, arr):
    from pydrobert.speech import util

    container, ch, access, force, req = (case[k] for k in ("container", "channels", "access", "force_as", "dtype"))
    if access == "wds":
        r = _call(lambda: util.wds_read_signal("utt.sph", data))
    else:
        r = _read(path, dotted, access, force, req, None)
    fs = 2 * ch
    tags = dict(what="sph_reads", container=container,
                via=("wds" if access == "wds" else "inferred" if force is None else force),
                stream=(access in ("file", "bytesio", "wds")), frame_divides_16384=(SPH_READ % fs == 0),
                header_multiple_of_1024=((len(data) - arr.size * 2) % 1024 == 0))
    desc = "%s %r (%d data bytes = %d reads of 16384) header=%s access=%s force_as=%r dtype=%r" % (
        container, arr.shape, arr.size * 2, -(-arr.size * 2 // SPH_READ), case["header"], access, force, req)
    if r[0] == "exc":
        return core.violation(dict(tags, aspect="exception", exc=type(r[1]).__name__),
                              "%s: raised %s: %s" % (desc, type(r[1]).__name__, _clean(r[1])), case), "exc"
    got = r[1]
    if not isinstance(got, np.ndarray):
        return core.violation(dict(tags, aspect="type"), "%s: returned %s" % (
            desc, type(got).__name__), case), "type"
    want = arr if req is None else arr.astype(req)
    g, w = got.reshape(-1), want.reshape(-1)
    n = min(len(g), len(w))
    neq = np.flatnonzero(g[:n] != w[:n])
    first = int(neq[0]) if len(neq) else (n if len(g) != len(w) else None)
    if first is not None or got.shape != want.shape:
        k = None if first is None else first * 2 // SPH_READ + 1
        return core.violation(
            dict(tags, aspect=("shape" if got.shape != want.shape else "values"),
                 first_bad_in_read=(k if k is None or k < 3 else "3+")),
            "%s: shape %r, stored %r; first difference at (frame, channel) %r: got %r, stored %r" % (
                desc, got.shape, want.shape, None if first is None else (first // ch, first % ch),
                g[first:first + 3].tolist() if first is not None else None,
                w[first:first + 3].tolist() if first is not None else None), case), "differs"
    if got.dtype != want.dtype:
        return core.violation(dict(tags, aspect="dtype"), "%s: dtype %s, expected %s" % (
            desc, got.dtype, want.dtype), case), "dtype"
    return None, "ok"


def _sph_reads(pt, seed):
    container, ch, count = pt
    viol, obs, evals, nontriv = [], set(), 0, 0
    reads = -(-count * ch * 2 // SPH_READ)
    cache = {}
    with _Tmp() as tmp:
        for header in SPH_HEADERS:
            path, dotted, data, arr = _sph_file(container, ch, count, header, seed, tmp, cache)
            for access, force in _sph_accesses():
                for req in (REQUESTED if access != "wds" else [None]):
                    case = dict(kind="sph_reads", container=container, channels=ch, count=count,
                                header=header, access=access, force_as=force, dtype=req)
                    v, o = _sph_check(case, path, dotted, data, arr)
                    evals += 1
                    nontriv += int(reads > 1)
                    obs.add((o, reads, req))
                    if v is not None:
                        viol.append(v)
    return core.result(viol, evals=evals, nontrivial_count=nontriv, obs=sorted(map(str, obs)),
                       sample=dict(container=container, channels=ch, count=count, reads=reads,
                                   headers=SPH_HEADERS, accesses=[list(map(str, a)) for a in _sph_accesses()],
                                   requested=REQUESTED))


def _replay_sph_reads(case, seed):
    with _Tmp() as tmp:
        path, dotted, data, arr = _sph_file(case["container"], case["channels"], case["count"],
                                            case["header"], seed, tmp)
        v, _ = _sph_check(case, path, dotted, data, arr)
    return core.result([v] if v is not None else [])


# ------------------------------------------------------------------ error lattice

BAD_NAMES = ["", "sig", "sig.", "sig.txt", "sig.bin", "sig.raw", "sig.dat", "sig.npy.bak", "sig.wav.gz",
             "sig.sph.tmp", ".hidden", "sigwav", "signpy", "d.wav/sig", "d.npy/sig.x", "sig.hdf5~",
             "sig.pt.1", "sig wav", "sig.n", "sig.np", "sig.hdf", "sig.h5",
             # words that force_as accepts but that are not suffixes
             "sig.file", "sig.soundfile", "sig.table", "sig.kaldi"]
BAD_FORCE = ["", " ", "numpy", "WAV", "Npy", "sphere", "txt", "h5", "torch", "unknown", "npy ", " wav",
             ".wav", ".npy", "pickle", "none", "None"]


def _error_case(case, seed, tmp):
    from pydrobert.speech import util

    kind = case["kind"]
    arr = _values(seed, (7,), "int16")
    good = os.path.join(tmp, "good.npy")
    np.save(good, arr)
    dtype, key = case.get("dtype"), case.get("key")
    kw = {}
    if dtype is not None:
        kw["dtype"] = dtype
    if key is not None:
        kw["key"] = key
    if kind == "control":
        r = _call(lambda: util.read_signal(good, **kw))
        if r[0] != "ok" or not np.array_equal(r[1], arr.astype(dtype or "int16")):
            raise core.HarnessError("control read failed: %r" % (r,))
        return [], "ok"
    if kind == "bad_name":
        name = case["name"]
        target = os.path.join(tmp, "n", name) if name else ""
        if case["exists"] and name and not name.endswith("/"):
            os.makedirs(os.path.dirname(target), exist_ok=True)
            shutil.copyfile(good, target)
        arg = target if case["absolute"] else name
        r = _call(lambda: util.read_signal(arg, **kw))
        want, wname = IOError, "IOError"
        tags = dict(what="unrecognised_name")
    elif kind == "stream_no_force":
        container = case["container"]
        sub = os.path.join(tmp, "c")
        os.makedirs(sub, exist_ok=True)
        shape = (7,)
        path, _, _ = _rt_file(container, _layouts(container)[0][0], shape,
                              CONTAINERS[container][3][0], seed, sub)
        if case["stream"] == "file":
            with open(path, "rb") as f:       # note: has a .name with a recognised suffix
                r = _call(lambda: util.read_signal(f, **kw))
        else:
            with open(path, "rb") as f:
                b = io.BytesIO(f.read())
            r = _call(lambda: util.read_signal(b, **kw))
        want, wname = ValueError, "ValueError"
        tags = dict(what="stream_without_force_as")
    elif kind == "bad_force":
        if case["stream"] == "path":
            r = _call(lambda: util.read_signal(good, force_as=case["force_as"], **kw))
        elif case["stream"] == "file":
            with open(good, "rb") as f:
                r = _call(lambda: util.read_signal(f, force_as=case["force_as"], **kw))
        else:
            with open(good, "rb") as f:
                b = io.BytesIO(f.read())
            r = _call(lambda: util.read_signal(b, force_as=case["force_as"], **kw))
        want, wname = ValueError, "ValueError"
        tags = dict(what="unknown_force_as")
    else:
        raise core.HarnessError(kind)
    if r[0] == "ok":
        return [core.violation(dict(tags, outcome="returned"),
                               "%r: returned %s instead of raising %s" % (
                                   case, type(r[1]).__name__, wname), case)], "returned"
    if not isinstance(r[1], want):
        return [core.violation(dict(tags, outcome="wrong_exception", exc=type(r[1]).__name__),
                               "%r: raised %s (%s) instead of %s" % (
                                   case, type(r[1]).__name__, _clean(r[1]), wname), case)], type(r[1]).__name__
    return [], wname


def _errors(pt, seed):
    viol, obs = [], set()
    for case in pt["cases"]:
        with _Tmp() as tmp:
            v, o = _error_case(case, seed, tmp)
        viol += v
        obs.add(o)
    n = len(pt["cases"])
    return core.result(viol, evals=n, nontrivial_count=n, obs=sorted(obs), sample=pt["cases"][0])


def _error_points():
    cases = [dict(kind="control"), dict(kind="control", dtype="float32")]
    for name in BAD_NAMES:
        for exists in (True, False):
            for absolute in (True, False):
                if not absolute and exists:
                    continue            # relative names are never created (cwd is not ours)
                for dtype, key in ((None, None), ("float32", None), (None, "k")):
                    cases.append(dict(kind="bad_name", name=name, exists=exists, absolute=absolute,
                                      dtype=dtype, key=key))
    for container in CONTAINERS:
        for stream in CONTAINERS[container][4]:
            for dtype, key in ((None, None), ("float32", None), (None, "k")):
                cases.append(dict(kind="stream_no_force", container=container, stream=stream,
                                  dtype=dtype, key=key))
    for force in BAD_FORCE:
        for stream in ("path", "file", "bytesio"):
            for dtype in (None, "float32"):
                cases.append(dict(kind="bad_force", force_as=force, stream=stream, dtype=dtype))
    return [dict(cases=cases[i:i + 16]) for i in range(0, len(cases), 16)]


def _replay_error(case, seed):
    with _Tmp() as tmp:
        return core.result(_error_case(case, seed, tmp)[0])


# ------------------------------------------------------------------ wds_read_signal garbage

WDS_KEYS = ["utt.wav", "utt.flac", "utt.aiff", "utt.ogg", "utt.hdf5", "utt.npy", "utt.npz", "utt.pt",
            "utt.sph", "utt.txt", "utt", "utt|", "ark:utt", "scp,p:utt.wav"]
ALPHABET = [0x00, 0xFF, 0x0A, 0x20, ord("R"), ord("f"), ord("F"), ord("O"), 0x93, ord("P"), 0x89,
            ord("N"), 0x80, ord("a"), ord("1"), ord("I")]
_SEEDS = None


def _seed_files(seed):
    """one small valid file per container: name -> (own key, bytes, stored array or None)"""
    global _SEEDS
    if _SEEDS is not None and _SEEDS[0] == seed:
        return _SEEDS[1]
    out = {}
    with _Tmp() as tmp:
        for name, container, suffix in (("wav", "wav16", ".wav"), ("flac", "flac", ".flac"),
                                        ("aiff", "aiff", ".aiff"), ("npy", "npy", ".npy"),
                                        ("npz", "npz", ".npz"), ("pt", "pt", ".pt"),
                                        ("hdf5", "hdf5", ".hdf5"), ("sph", "sph01", ".sph")):
            sub = os.path.join(tmp, name)
            os.makedirs(sub)
            layout = _layouts(container)[0][0]
            path, _, arrays = _rt_file(container, layout, (4,), "int16", seed, sub)
            with open(path, "rb") as f:
                out[name] = ("utt" + suffix, f.read(), arrays["sig"])
        # no Ogg seed file: libsndfile gives every Ogg stream a random serial number, so its
        # bytes would differ from run to run (the ".ogg" key is still exercised with all the others)
    _SEEDS = (seed, out)
    return out


_CYCLIC = None


def _cyclic_files(seed):
    """valid HDF5 files (h5py's own writer) whose group graph has a hard-link cycle, which HDF5
    allows; one dataset each.  [0]: the cycle comes before the dataset in name order, [1]: after."""
    global _CYCLIC
    if _CYCLIC is None or _CYCLIC[0] != seed:
        import h5py

        arr = _values(seed, (4,), "int16")
        out = []
        for gname, dname in (("a", "z"), ("z", "a")):
            b = io.BytesIO()
            with h5py.File(b, "w") as f:
                g = f.create_group(gname)
                g["loop"] = g                    # hard link from the group to itself
                g.create_group("sub")["up"] = g  # and from a child back to its parent
                f.create_dataset(dname, data=arr)
            out.append((b.getvalue(), arr))
        _CYCLIC = (seed, out)
    return _CYCLIC[1]


def _subst(b, wide=False):
    """replacement values for a byte: always the same number of distinct values != b, so that the
    size of the family depends on the file length only (zip members carry time stamps)"""
    masks = [0xFF, 0x80, 0x01] if not wide else [1 << k for k in range(8)] + [0xFF, 0x55, 0xAA]
    return [b ^ m for m in masks]


def _family(fam, seed, lo=0, hi=None):
    """items lo..hi-1 of the complete, ordered list of byte strings of a family, and its length"""
    def cut(n, item):
        h = n if hi is None else min(hi, n)
        return [item(i) for i in range(lo, h)], n

    if fam == "byte1":
        return cut(257, lambda i: bytes([i]) if i < 256 else b"")
    if fam == "byte2":
        return cut(256, lambda i: bytes([ALPHABET[i // 16], ALPHABET[i % 16]]))
    if fam == "byte2all":
        return cut(65536, lambda i: bytes([i // 256, i % 256]))
    kind, name = fam.split(":")
    if kind == "cyclic":
        files = _cyclic_files(seed)
        return cut(len(files), lambda i: files[i][0])
    data = _seed_files(seed)[name][1]
    if kind == "prefix":
        return cut(len(data) + 1, lambda n: data[:n])         # the last one is the intact file
    if kind in ("subst", "substwide"):
        index = [(i, v) for i in range(len(data)) for v in _subst(data[i], kind == "substwide")]
        return cut(len(index), lambda j: data[:index[j][0]] + bytes([index[j][1]]) + data[index[j][0] + 1:])
    raise core.HarnessError(fam)


def _digest(a):
    return hashlib.sha1(repr((a.dtype.str, a.shape)).encode() + np.ascontiguousarray(a).tobytes()).hexdigest()


def _isolated(key, datas, timeout=20):
    """wds_read_signal(key, d) for d in datas, in forked children.
    -> list of ("none",) | ("array", digest) | ("type", name) | ("raised", type, msg) |
               ("crash", status) | ("hang", note)   [hang = the per-input alarm of `timeout` s fired]"""
    out = []
    start = 0
    while start < len(datas):
        r, w = os.pipe()
        pid = os.fork()
        if pid == 0:
            code = 3
            try:
                os.close(r)
                nul = os.open(os.devnull, os.O_WRONLY)
                os.dup2(nul, 1)
                os.dup2(nul, 2)
                for mod in ("soundfile", "h5py", "torch"):
                    try:                 # before the address-space limit: importing needs room
                        __import__(mod)
                    except Exception:
                        pass
                try:
                    with open("/proc/self/statm") as f:
                        vm = int(f.read().split()[0]) * resource.getpagesize()
                    resource.setrlimit(resource.RLIMIT_AS, (vm + (1 << 30), vm + (1 << 30)))
                except Exception:
                    pass
                signal.signal(signal.SIGALRM, signal.SIG_DFL)
                from pydrobert.speech import util

                for i in range(start, len(datas)):
                    signal.alarm(timeout)
                    try:
                        res = util.wds_read_signal(key, datas[i])
                        if res is None:
                            line = "N"
                        elif isinstance(res, np.ndarray):
                            line = "A " + _digest(res)
                        else:
                            line = "T " + type(res).__name__
                    except BaseException as e:
                        line = "E %s %s" % (type(e).__name__, str(e)[:200].replace("\n", " "))
                    os.write(w, line.encode("utf-8", "replace") + b"\n")
                signal.alarm(0)
                code = 0
            finally:
                os._exit(code)
        os.close(w)
        chunks = []
        while True:
            c = os.read(r, 65536)
            if not c:
                break
            chunks.append(c)
        os.close(r)
        _, status = os.waitpid(pid, 0)
        lines = b"".join(chunks).decode("utf-8", "replace").split("\n")
        complete, partial = lines[:-1], lines[-1]
        for ln in complete:
            f = ln.split(" ", 2)
            if f[0] == "N":
                out.append(("none",))
            elif f[0] == "A":
                out.append(("array", f[1]))
            elif f[0] == "T":
                out.append(("type", f[1]))
            elif f[0] == "E":
                out.append(("raised", f[1], f[2] if len(f) > 2 else ""))
            else:
                raise core.HarnessError("child protocol: %r" % ln)
        start += len(complete)
        if os.WIFEXITED(status) and os.WEXITSTATUS(status) == 0 and not partial:
            if start != len(datas):
                raise core.HarnessError("child stopped early without dying")
            break
        if start >= len(datas):
            raise core.HarnessError("child died (%r) after finishing its batch" % status)
        # the child died while working on input `start`
        if os.WIFSIGNALED(status) and os.WTERMSIG(status) == signal.SIGALRM:
            out.append(("hang", "no result after %d s" % timeout))
        else:
            out.append(("crash", "signal %d" % os.WTERMSIG(status) if os.WIFSIGNALED(status)
                        else "exit %d" % os.WEXITSTATUS(status)))
        start += 1
    return out


def _key_kind(key):
    if key.endswith("|"):
        return "kaldi_pipe"
    if ":" in key:
        return "kaldi_table"
    return key.rsplit(".", 1)[1] if "." in key else "none"


def _wds_judge(key, fam, data, outcome, expected_digest, case):
    tags = dict(container=_key_kind(key),
                family=fam.split(":")[0].replace("substwide", "subst").replace("byte2all", "byte2"))
    if outcome[0] == "raised":
        return core.violation(dict(tags, what="wds_raised", exc=outcome[1]),
                              "wds_read_signal(%r, <%d bytes %s...>) raised %s: %s" % (
                                  key, len(data), data[:12].hex(), outcome[1], _clean(outcome[2])), case)
    if outcome[0] == "crash":
        return core.violation(dict(tags, what="wds_native_crash", how=outcome[1]),
                              "wds_read_signal(%r, <%d bytes %s...>) killed the interpreter (%s)" % (
                                  key, len(data), data[:12].hex(), outcome[1]), case)
    if expected_digest is not None and outcome[0] in ("hang", "none"):
        # an intact file: whichever way the decode was lost (no return within the alarm, or an
        # error swallowed into None) it is the same failure to read back what was stored
        return core.violation(dict(tags, what="wds_roundtrip"),
                              "wds_read_signal(%r, <intact %d-byte file>) gave no array (it returned None "
                              "or did not return within the alarm), expected the stored array" % (
                                  key, len(data)), case)
    if outcome[0] == "hang":
        return core.violation(dict(tags, what="wds_hang"),
                              "wds_read_signal(%r, <%d bytes %s...>) did not return (%s)" % (
                                  key, len(data), data[:12].hex(), outcome[1]), case)
    if outcome[0] == "type":
        return core.violation(dict(tags, what="wds_bad_return", type=outcome[1]),
                              "wds_read_signal(%r, ...) returned a %s" % (key, outcome[1]), case)
    if expected_digest is not None and outcome != ("array", expected_digest):
        return core.violation(dict(tags, what="wds_roundtrip"),
                              "wds_read_signal(%r, <intact %d-byte file>) returned %s, not the stored array" % (
                                  key, len(data), outcome[0]), case)
    return None


def _wds_expected(key, fam, index, data, seed):
    """digest of the array an intact file must decode to under its own key, else None"""
    kind = fam.split(":")[0]
    if kind == "prefix":
        own, full, arr = _seed_files(seed)[fam.split(":")[1]]
        if own == key and data == full and arr is not None:
            return _digest(arr)
    if kind == "cyclic" and key == "utt.hdf5":
        return _digest(_cyclic_files(seed)[index][1])
    return None


def _wds(pt, seed):
    key, fam, lo, hi = pt
    datas, _ = _family(fam, seed, lo, hi)
    outs = _isolated(key, datas)
    if len(outs) != len(datas):
        raise core.HarnessError("isolated runner returned %d outcomes for %d inputs" % (len(outs), len(datas)))
    viol, obs, narr = [], set(), 0
    for i, (d, o) in enumerate(zip(datas, outs)):
        exp = _wds_expected(key, fam, lo + i, d, seed)
        case = dict(kind="wds", key=key, family=fam, index=lo + i, data=d.hex())
        v = _wds_judge(key, fam, d, o, exp, case)
        if v is not None:
            viol.append(v)
        obs.add(o[0])
        narr += o[0] == "array"
    return core.result(viol, evals=len(datas), nontrivial_count=len(datas), obs=sorted(obs),
                       arrays=narr,
                       sample=dict(key=key, family=fam, first=datas[0][:24].hex() if datas else None,
                                   count=len(datas)))


def _replay_wds(case, seed):
    d = bytes.fromhex(case["data"])
    o = _isolated(case["key"], [d])[0]
    exp = _wds_expected(case["key"], case["family"], case["index"], d, seed)
    v = _wds_judge(case["key"], case["family"], d, o, exp, case)
    return core.result([v] if v is not None else [])


def _wds_points(tier, seed):
    thorough = tier == "thorough"
    fams = ["byte1", "byte2all" if thorough else "byte2"]
    names = sorted(_seed_files(seed))
    fams += ["prefix:" + n for n in names]
    fams += [("substwide:" if thorough else "subst:") + n for n in names]
    fams += ["cyclic:hdf5"]
    pts = []
    batch = 2500
    for fam in fams:
        n = _family(fam, seed, 0, 0)[1]
        for key in WDS_KEYS:
            for lo in range(0, n, batch):
                pts.append((key, fam, lo, min(n, lo + batch)))
    return pts, fams


# ------------------------------------------------------------------ call histories, results held

# Every container of the property with two files (variants a / b) of the same shape and stored dtype but
# other values; 12 values in each file and int16 wherever the container allows it, so that any state
# keyed by size / dtype / container / file name is shared by some pair of calls.
HIST_SHAPES = {"raw": (12,), "npy": (12,), "npz": (12,), "pt": (12,), "hdf5": (12,)}      # audio: (6, 2)
HIST_STORED = {"wav32": "int32", "raw": "float64"}                                         # others: int16
HIST_VARIANTS = ("a", "b")
HIST_DTYPES = (None, "float64")
# force_as words that are NOT file-name suffixes: an existing, decodable file called take1.<word> has
# "no recognised suffix" (IOError) whatever was called before
HIST_KEYWORDS = {"file": "raw", "soundfile": "flac", "table": "npy", "kaldi": "npy"}
HIST_ERRORS = [
    ["bad_name", "sig.txt", True], ["bad_name", "nosuch.bin", False],
    ["stream_no_force", "npy", "bytesio"], ["stream_no_force", "wav16", "file"],
    ["bad_force", "numpy", "path"], ["bad_force", "WAV", "bytesio"],
] + [["keyword_name", k] for k in HIST_KEYWORDS]
HIST_ERRORS_SHORT = [["bad_name", "sig.txt", True], ["stream_no_force", "npy", "bytesio"],
                     ["bad_force", "numpy", "path"], ["keyword_name", "file"], ["keyword_name", "soundfile"]]
HIST_PLAN = {"quick": (("full", 2), ("short", 3)), "thorough": (("full", 2), ("mid", 3))}


def _hist_accesses(container, which):
    suffix, forces, _, _, streams = CONTAINERS[container]
    if suffix is None:                                   # raw binary: force_as='file' is the only way in
        acc = [["path", forces[0]], [streams[0], forces[0]]]
    else:
        acc = [["path", None], ["bytesio", forces[0]]]
    return acc[:1] if which == "short" else acc


def _hist_calls(alphabet):
    """full : container x variant {a,b} x access {path (suffix-inferred), BytesIO + force_as} x requested
              dtype {None, float64}, and every error call
       mid  : the same with dtype None only
       short: container x variant {a,b} x path x dtype None, and one call per documented error case plus
              the two keyword-named files that decode if mistaken for a suffix"""
    out = []
    for c in CONTAINERS:
        for v in HIST_VARIANTS:
            for acc, force in _hist_accesses(c, alphabet):
                for dt in (HIST_DTYPES if alphabet == "full" else HIST_DTYPES[:1]):
                    out.append(["read", c, v, acc, force, dt])
    return out + (HIST_ERRORS_SHORT if alphabet == "short" else HIST_ERRORS)


def _hist_arrays(container, seed):
    shape = HIST_SHAPES.get(container, (6, 2))
    dtype = HIST_STORED.get(container, "int16")
    k = list(CONTAINERS).index(container)
    return {v: _values(seed, shape, dtype, offset=50 + 2 * k + i, full_range=(container == "wav32"))
            for i, v in enumerate(HIST_VARIANTS)}


def _hist_write(tmp, seed):
    """every file any call of the alphabet may name (the containers' own writers; the library under test
    is not called)"""
    other = _values(seed, (3,), "int16", offset=1)
    for c in CONTAINERS:
        arrs = _hist_arrays(c, seed)
        for v in HIST_VARIANTS:
            _write(c, _layouts(c)[0][0], arrs[v], other, other, _hist_path(tmp, c, v))
    for word, c in HIST_KEYWORDS.items():
        shutil.copyfile(_hist_path(tmp, c, "a"), os.path.join(tmp, "take1." + word))
    shutil.copyfile(_hist_path(tmp, "npy", "a"), os.path.join(tmp, "sig.txt"))


def _hist_path(tmp, container, variant):
    return os.path.join(tmp, "%s_%s%s" % (container, variant, CONTAINERS[container][0] or ".f64"))


def _hist_perform(call, tmp):
    """-> outcome of one call of the alphabet: ("ok", value) | ("exc", exception)"""
    from pydrobert.speech import util

    kind = call[0]
    if kind == "read":
        _, c, v, access, force, dt = call
        p = _hist_path(tmp, c, v)
        return _read(p, p, access, force, dt, None)
    if kind == "bad_name":
        return _call(lambda: util.read_signal(os.path.join(tmp, call[1])))
    if kind == "keyword_name":
        return _call(lambda: util.read_signal(os.path.join(tmp, "take1." + call[1])))
    if kind == "stream_no_force":
        p = _hist_path(tmp, call[1], "a")
        if call[2] == "file":
            with open(p, "rb") as f:
                return _call(lambda: util.read_signal(f))
        with open(p, "rb") as f:
            b = io.BytesIO(f.read())
        return _call(lambda: util.read_signal(b))
    if kind == "bad_force":
        p = _hist_path(tmp, "npy", "a")
        if call[2] == "path":
            return _call(lambda: util.read_signal(p, force_as=call[1]))
        with open(p, "rb") as f:
            b = io.BytesIO(f.read())
        return _call(lambda: util.read_signal(b, force_as=call[1]))
    raise core.HarnessError("call %r" % (call,))


def _hist_expect(call, seed):
    """what the property demands of the call, whatever was called before:
    ("array", stored.astype(requested)) | ("raises", exception class, its name)"""
    kind = call[0]
    if kind == "read":
        a = _hist_arrays(call[1], seed)[call[2]]
        return ("array", a if call[5] is None else a.astype(call[5]))
    if kind in ("bad_name", "keyword_name"):
        return ("raises", IOError, "IOError")
    return ("raises", ValueError, "ValueError")


def _config_state():
    """pydrobert.speech.config: every module-level number, string and set (the documented switches)"""
    from pydrobert.speech import config

    out = {}
    for name, v in vars(config).items():
        if name.startswith("__"):
            continue
        if isinstance(v, (set, frozenset)):
            out[name] = repr(sorted(map(repr, v)))
        elif isinstance(v, (bool, int, float, str, bytes, tuple)):
            out[name] = repr(v)
    return out


def _hist_relation(calls, want, i, j):
    return dict(same_container=(calls[i][1] == calls[j][1]), same_file=(calls[i][1:3] == calls[j][1:3]),
                same_value_count=(want[i].size == want[j].size),
                same_result_dtype=(want[i].dtype == want[j].dtype))


def _scribble(a):
    """the caller owns a returned array: overwrite it with values no file holds"""
    if not isinstance(a, np.ndarray) or not a.flags.writeable or not a.size:
        return False
    a[...] = 21 if a.dtype.kind in "iu" else 21.5
    return True


def _history_child(calls, seed, tmp):
    """runs in a forked child (state 'just imported').  -> dict(viol=[[tags, detail]], obs=[...])"""
    viol, obs = [], []
    conf0 = _config_state()
    expect = [_hist_expect(c, seed) for c in calls]
    want = [e[1] if e[0] == "array" else None for e in expect]
    kinds = [c[0] if c[0] != "read" else "read_ok" for c in calls]
    held = []

    def judge(j, r, phase):
        """-> True when call j did what the property demands"""
        call, exp = calls[j], expect[j]
        where = "call %d of %r%s" % (j + 1, calls, "" if phase == "first" else
                                     " (after the caller overwrote every array returned so far and the "
                                     "sequence was repeated)")
        base = dict(what="history_call_differs", kind=kinds[j], phase=phase, first_call=(j == 0))
        if call[0] == "read":
            base.update(container=call[1], stream=(call[3] != "path"), cast=(call[5] is not None))
        if exp[0] == "raises":
            if r[0] == "ok":
                viol.append([dict(base, outcome="returned"), "%s returned %s instead of raising %s" % (
                    where, type(r[1]).__name__, exp[2])])
                return False
            if not isinstance(r[1], exp[1]):
                viol.append([dict(base, outcome="wrong_exception", exc=type(r[1]).__name__),
                             "%s raised %s (%s) instead of %s" % (where, type(r[1]).__name__,
                                                                   _clean(r[1]), exp[2])])
                return False
            return True
        if r[0] == "exc":
            viol.append([dict(base, outcome="raised", exc=type(r[1]).__name__),
                         "%s raised %s: %s" % (where, type(r[1]).__name__, _clean(r[1]))])
            return False
        got, w = r[1], exp[1]
        if not isinstance(got, np.ndarray):
            viol.append([dict(base, outcome="type"), "%s returned a %s" % (where, type(got).__name__)])
            return False
        if got.shape != w.shape:
            p = ("shape", "shape %r, stored %r" % (got.shape, w.shape))
        elif got.dtype != w.dtype:
            p = ("dtype", "dtype %s, expected %s" % (got.dtype, w.dtype))
        elif not np.array_equal(got, w):
            bad = np.argwhere(got != w)
            p = ("values", "%d of %d values differ, first at %r: got %r, stored %r" % (
                len(bad), w.size, bad[0].tolist(), got[tuple(bad[0])].item(), w[tuple(bad[0])].item()))
        else:
            return True
        viol.append([dict(base, outcome=p[0]), "%s: %s" % (where, p[1])])
        return False

    for phase in ("first", "repeat"):
        if phase == "repeat":
            if viol or not any([_scribble(h[0]) for h in held]):
                break               # a history that already failed is not repeated
            held = []
        for j in range(len(calls)):
            r = _hist_perform(calls[j], tmp)
            good = judge(j, r, phase)
            obs.append(kinds[j] + (":ok" if good else ":differs"))
            got = r[1] if r[0] == "ok" and isinstance(r[1], np.ndarray) and want[j] is not None else None
            held.append((got, None if got is None else got.copy(), good))
            for i in range(j):
                a, cp, ok = held[i]
                if ok and a is not None and not (a.shape == cp.shape and np.array_equal(a, cp)):
                    held[i] = (a, cp, False)          # reported once
                    viol.append([dict(_hist_relation(calls, want, i, j) if want[j] is not None else {},
                                      what="held_result_overwritten", phase=phase, container=calls[i][1],
                                      by=kinds[j]),
                                 "the array returned by call %d of %r (held by the caller) changed while call "
                                 "%d ran" % (i + 1, calls, j + 1)])
            now = _config_state()
            changed = sorted(k for k in set(conf0) | set(now) if now.get(k) != conf0.get(k))
            if changed:
                viol.append([dict(what="config_changed", names=changed, by=kinds[j]),
                             "call %d of %r changed pydrobert.speech.config.%s: %s -> %s" % (
                                 j + 1, calls, changed[0], conf0.get(changed[0]), now.get(changed[0]))])
                conf0 = now
        for i in range(len(held)):
            for j in range(i + 1, len(held)):
                a, b = held[i][0], held[j][0]
                if a is not None and b is not None and a.size and b.size and np.shares_memory(a, b):
                    viol.append([dict(_hist_relation(calls, want, i, j), what="results_share_memory",
                                      phase=phase, container=calls[i][1]),
                                 "the arrays returned by calls %d and %d of %r share memory" % (
                                     i + 1, j + 1, calls)])
    return dict(viol=viol, obs=obs)


def _hist_seqs(alphabet, depth, first):
    """every sequence of 1..depth calls over the alphabet that starts with call number `first`"""
    import itertools

    calls = _hist_calls(alphabet)
    return [[calls[first]] + [calls[k] for k in rest]
            for n in range(depth) for rest in itertools.product(range(len(calls)), repeat=n)]


def _hist_setup(seed, tmp):
    """files of the alphabet on disk; -> child(seq) for mc.crash.explore_histories.  The parent imports
    the library (and the readers' libraries) and never calls it."""
    import h5py  # noqa: F401
    import soundfile  # noqa: F401
    import torch  # noqa: F401
    from pydrobert.speech import _sphere, config, util  # noqa: F401

    _hist_write(tmp, seed)
    return lambda seq: _history_child([list(c) for c in seq], seed, tmp)


def _histories(pt, seed):
    """pt = (alphabet, depth, index of the first call): every history of 1..depth calls that starts with
    that call; one forked child per point (see mc.crash.explore_histories)"""
    from .. import crash

    alphabet, depth, first = pt
    seqs = _hist_seqs(alphabet, depth, first)
    with _Tmp() as tmp:
        viol, results, forks = crash.explore_histories(
            seqs, _hist_setup(seed, tmp), dict(alphabet=alphabet, depth=depth, first=first))
    obs = sorted(set(o for r in results for o in r["obs"]))
    return core.result(viol, evals=len(seqs), nontrivial_count=sum(len(s) > 1 for s in seqs),
                       obs=[seqs[0][0][:2]] + obs, impl_calls=forks,
                       sample=dict(alphabet=alphabet, depth=depth, first_call=seqs[0][0],
                                   inner="every continuation of 0..%d further calls" % (depth - 1)))


def _replay_history(case, seed):
    from .. import crash

    with _Tmp() as tmp:
        return core.result(crash.replay_history(
            case, lambda c: _hist_seqs(c["alphabet"], c["depth"], c["first"]), _hist_setup(seed, tmp)))


# ------------------------------------------------------------------ a file REWRITTEN between reads
#
# "an array written ... is read back": what a name holds NOW.  One path per history; a version of its
# contents is written with the container's own writer, read through every access that goes through the file
# NAME (and an open file), then the same path is rewritten with ANOTHER version - other values; other dtype /
# shape / channel count / sample width / byte order; (npz, hdf5) other entry names - and read again, all in one
# interpreter.  Every read must give what was written LAST.

RW_WAYS = ("in_place", "in_place_mtime_kept", "remove_create", "replace_mtime_kept")
RW_DTYPES = (None, "float64")


def _rw_versions(container):
    return (0, 1, 2, 3) if container in ("npz", "hdf5") else (0, 1, 2)


def _rw_version(container, v, seed):
    """-> (container whose writer is used, layout, sig, other, other2, {key: expected array | "any"})
    v0: the base array; v1: same shape and dtype, other values (npz: compressed); v2: another shape and, where
    the suffix allows it, another stored dtype (wav: the other sample width, sph: the other byte order, mono);
    v3 (npz, hdf5): entries under other names"""
    k = list(CONTAINERS).index(container)
    wc, layout = container, _layouts(container)[0][0]
    audio = container in ("wav16", "wav32", "flac", "aiff", "sph01", "sph10")
    dtype = HIST_STORED.get(container, "int16")
    shape = (6, 2) if audio else (12,)
    if v == 2:
        shape = (9,) if audio else (7,) if container == "raw" else (4, 3)
        if not audio and container != "raw":
            dtype = "float32"
        wc = {"wav16": "wav32", "wav32": "wav16", "sph01": "sph10", "sph10": "sph01"}.get(container, container)
        if wc in ("wav16", "wav32"):
            dtype = {"wav16": "int16", "wav32": "int32"}[wc]
    off = 200 + 10 * k + 3 * v
    arr = _values(seed, shape, dtype, offset=off, full_range=(wc == "wav32"))
    other = _values(seed, (3,), dtype, offset=off + 1)
    other2 = _values(seed, (2, 2), dtype, offset=off + 2)
    exp = {None: arr}
    if container == "npz":
        layout = {0: "positional", 1: "compressed", 2: "positional", 3: "named"}[v]
        exp = {"positional": {None: arr, "arr_0": arr, "arr_1": other},
               "compressed": {None: arr, "arr_0": arr, "b": other},
               "named": {None: other2, "arr_0": other2, "sig": arr, "a": other}}[layout]
    elif container == "hdf5":
        layout = "multi" if v == 3 else "single_nested"
        exp = {None: arr, "a/b/d/f": arr} if v != 3 else {"a/b/d/f": arr, "g": other, "a/x": other2}
    return wc, layout, arr, other, other2, exp


def _rw_write(container, v, seed, path, way, first):
    wc, layout, arr, other, other2, exp = _rw_version(container, v, seed)
    st = None if first else os.stat(path)
    if first or way.startswith("in_place"):
        _write(wc, layout, arr, other, other2, path)
    elif way == "remove_create":
        os.remove(path)
        _write(wc, layout, arr, other, other2, path)
    else:
        stage = os.path.join(os.path.dirname(path), "staging")
        os.makedirs(stage, exist_ok=True)
        tmp = os.path.join(stage, os.path.basename(path))
        _write(wc, layout, arr, other, other2, tmp)
        os.replace(tmp, path)
    if st is not None and way.endswith("mtime_kept"):
        os.utime(path, ns=(st.st_atime_ns, st.st_mtime_ns))
    return exp


def _rw_accesses(container):
    suffix, forces = CONTAINERS[container][0], CONTAINERS[container][1]
    acc = [("path", None)] if suffix is not None else []
    return acc + [("path", forces[0]), ("file", forces[0])]


def _rw_compare(got, want):
    if not isinstance(got, np.ndarray):
        return "type", "returned %s" % type(got).__name__
    if got.shape != want.shape:
        return "shape", "shape %r, the file holds %r" % (got.shape, want.shape)
    if got.dtype != want.dtype:
        return "dtype", "dtype %s, expected %s" % (got.dtype, want.dtype)
    if not np.array_equal(got, want):
        bad = np.argwhere(got != want)
        return "values", "%d of %d values differ, first at %r: got %r, the file holds %r" % (
            len(bad), want.size, bad[0].tolist(), got[tuple(bad[0])].item(), want[tuple(bad[0])].item())
    return None


def _rw_history(container, way, versions, seed, tmp):
    """-> (violations, evaluations, observations)"""
    suffix = CONTAINERS[container][0]
    path = os.path.join(tmp, "utt" + (suffix or ".f64"))
    viol, evals, obs = [], 0, set()
    prev = None
    for n, v in enumerate(versions):
        exp = _rw_write(container, v, seed, path, way, n == 0)
        for key in sorted(exp, key=str):
            for access, force in _rw_accesses(container):
                for req in (RW_DTYPES if container != "raw" else (None,)):
                    want = exp[key] if req is None else exp[key].astype(req)
                    r = _read(path, path, access, force, req, key)
                    evals += 1
                    case = dict(kind="rewrite", container=container, way=way, versions=list(versions),
                                upto=n, key=key, access=access, force_as=force, dtype=req)
                    tags = dict(what="rewrite", container=container, rewritten=(n > 0),
                                way=way.replace("_mtime_kept", ""), mtime_kept=way.endswith("mtime_kept"),
                                via=("inferred" if force is None else force), stream=(access == "file"),
                                keyed=(key is not None), cast=(req is not None))
                    desc = "%s: versions %r written to one path (%s), after writing version %d: " \
                           "read_signal(%s%s%s%s)" % (
                               container, list(versions[:n + 1]), way, v, "<open file>" if access == "file" else "path",
                               ", force_as=%r" % force if force else "", ", key=%r" % key if key is not None else "",
                               ", dtype=%r" % req if req else "")
                    if r[0] == "exc":
                        viol.append(core.violation(dict(tags, aspect="exception", exc=type(r[1]).__name__),
                                                   "%s raised %s: %s" % (desc, type(r[1]).__name__, _clean(r[1])),
                                                   case))
                        obs.add("exc")
                        continue
                    c = _rw_compare(r[1], want)
                    if c is not None:
                        stale = False
                        if prev is not None and key in prev and isinstance(r[1], np.ndarray):
                            old = prev[key] if req is None else prev[key].astype(req)
                            stale = _rw_compare(r[1], old) is None
                        viol.append(core.violation(dict(tags, aspect=c[0], stale=stale),
                                                   "%s: %s%s" % (desc, c[1], " (it is what the path held BEFORE it "
                                                                             "was rewritten)" if stale else ""), case))
                    obs.add(("ok" if c is None else c[0]) + (":rewritten" if n else ":first") +
                            (":keyed" if key is not None else ""))
        prev = exp
    return viol, evals, obs


def _rw_sequences(container):
    vs = _rw_versions(container)
    pairs = [(a, b) for a in vs for b in vs if a != b]
    return pairs + [(a, b, a) for a, b in pairs]


def _rewrite(pt, seed):
    container, way = pt
    viol, evals, nontriv, obs = [], 0, 0, set()
    with _Tmp() as tmp:
        for i, versions in enumerate(_rw_sequences(container)):
            sub = os.path.join(tmp, "h%d" % i)           # one name per history
            os.makedirs(sub)
            v, e, o = _rw_history(container, way, versions, seed, sub)
            viol += v
            evals += e
            nontriv += e
            obs |= o
            if len(viol) >= 60:
                break
    return core.result(viol, evals=evals, nontrivial_count=nontriv, obs=sorted(obs),
                       sample=dict(container=container, way=way, sequences=[list(x) for x in _rw_sequences(container)][:4],
                                   accesses=[list(map(str, a)) for a in _rw_accesses(container)]))


def _replay_rewrite(case, seed):
    with _Tmp() as tmp:
        v, _, _ = _rw_history(case["container"], case["way"], tuple(case["versions"]), seed, tmp)
    want = {k: case[k] for k in ("upto", "key", "access", "force_as", "dtype")}
    return core.result([x for x in v if all(x["case"].get(k) == want[k] for k in want)])


# ------------------------------------------------------------------ long inputs through every reader

LONG_FRAMES = (65535, 65536, 65537, 131073)
LONG_CHANNELS = (1, 2, 3)
LONG_EXTRA = [(c, 1048577, 2) for c in ("wav16", "wav32", "flac", "aiff")]     # 2**20 + 1 frames
LONG_DTYPES = (None, "float32")


def _long_file(container, frames, ch, seed, tmp):
    suffix = CONTAINERS[container][0]
    shape = (frames,) if ch == 1 else (frames, ch)
    dtype = HIST_STORED.get(container, "int16")
    arr = _values(seed, shape, dtype, full_range=(container == "wav32"))
    other = _values(seed, (3,), dtype, offset=1)
    path = os.path.join(tmp, "long" + (suffix or ".f64"))
    if container in ("sph01", "sph10"):
        be = container == "sph10"
        with open(path, "wb") as f:           # (the reference encoder packs value by value: too slow here)
            f.write(sph.header_variant("h1024", "pcm" + container[3:], ch, frames))
            f.write(arr.astype(">i2" if be else "<i2").tobytes("C"))
    else:
        _write(container, _layouts(container)[0][0], arr, other, other, path)
    return path, arr


def _long_check(case, path, arr):
    container, access, force, req = (case[k] for k in ("container", "access", "force_as", "dtype"))
    if container == "raw" and req is not None:
        return None, "skipped"
    r = _read(path, path, access, force, req, None)
    tags = dict(what="long_input", container=container,
                via=("wds" if access == "wds" else "inferred" if force is None else force),
                stream=(access in ("file", "bytesio", "wds")), multichannel=(arr.ndim == 2),
                more_than_65536_frames=(arr.shape[0] > 65536))
    desc = "%s %r stored %s access=%s force_as=%r dtype=%r" % (container, arr.shape, arr.dtype, access, force, req)
    if r[0] == "exc":
        return core.violation(dict(tags, aspect="exception", exc=type(r[1]).__name__),
                              "%s: raised %s: %s" % (desc, type(r[1]).__name__, _clean(r[1])), case), "exc"
    want = arr if req is None else arr.astype(req)
    got = r[1]
    c = _rw_compare(got, want)
    if c is None:
        return None, "ok"
    extra = {}
    if c[0] == "values":
        first = int(np.flatnonzero(got.reshape(-1) != want.reshape(-1))[0])
        extra = dict(first_bad_flat_index_ge_65536=(first >= 65536))
        c = (c[0], c[1] + " (flat index %d)" % first)
    return core.violation(dict(tags, aspect=c[0], **extra), "%s: %s" % (desc, c[1]), case), c[0]


def _long(pt, seed):
    container, frames, ch = pt
    viol, obs, evals, skipped = [], set(), 0, 0
    with _Tmp() as tmp:
        path, arr = _long_file(container, frames, ch, seed, tmp)
        for access, force in _rt_accesses(container):
            if access == "path_dotted":
                continue
            for req in (LONG_DTYPES if access != "wds" else (None,)):
                case = dict(kind="long_input", container=container, frames=frames, channels=ch, access=access,
                            force_as=force, dtype=req)
                v, o = _long_check(case, path, arr)
                if o == "skipped":
                    skipped += 1
                    continue
                evals += 1
                obs.add((o, req))
                if v is not None:
                    viol.append(v)
    return core.result(viol, evals=evals, nontrivial_count=evals, skipped=skipped, obs=sorted(map(str, obs)),
                       sample=dict(container=container, frames=frames, channels=ch,
                                   accesses=[list(map(str, a)) for a in _rt_accesses(container)]))


def _replay_long(case, seed):
    with _Tmp() as tmp:
        path, arr = _long_file(case["container"], case["frames"], case["channels"], seed, tmp)
        v, _ = _long_check(case, path, arr)
    return core.result([v] if v is not None else [])


# ------------------------------------------------------------------ every kind of binary file object


def _fo_own_reader(container, force, f):
    """the container's OWN reader on the file object -> array (raises when it cannot read such an object)"""
    if container in ("wav16", "wav32") and force == "wav":
        w = wave.open(f)
        try:
            a = np.frombuffer(w.readframes(w.getnframes()), dtype="<i%d" % w.getsampwidth())
            return a.reshape(-1, w.getnchannels()) if w.getnchannels() > 1 else a
        finally:
            w.close()
    if container in ("wav16", "wav32", "flac", "aiff"):
        import soundfile as sf

        with sf.SoundFile(f) as g:
            return g.read(dtype="int32" if container == "wav32" else "int16")
    if container == "npy":
        return np.load(f)
    if container == "npz":
        return np.load(f)["arr_0"]
    if container == "pt":
        import torch

        return torch.load(f, map_location="cpu").numpy()
    if container == "hdf5":
        import h5py

        with h5py.File(f, "r") as g:
            return np.array(g["a/b/d/f"])
    if container == "raw":
        return np.fromfile(f)
    raise core.HarnessError(container)


def _fo_case(case, seed, tmp):
    from pydrobert.speech import util

    container, kind, force, req, shape = (case[k] for k in ("container", "stream", "force_as", "dtype", "shape"))
    layout = _layouts(container)[0][0]
    sub = os.path.join(tmp, "w")
    os.makedirs(sub, exist_ok=True)
    path, _, arrays = _rt_file(container, layout, tuple(shape), HIST_STORED.get(container, "int16"), seed, sub)
    arr = arrays["sig"]
    with open(path, "rb") as f:
        data = f.read()
    if container not in ("sph01", "sph10"):
        if kind == "pipe":
            return None, "skipped"        # not seekable: no third-party reader of these containers takes it
        # in the property's domain iff the container's own reader reads the stored array from such an object
        with sph.open_stream(kind, data, tmp) as f:
            own = _call(lambda: _fo_own_reader(container, force, f))
        if own[0] != "ok" or _rw_compare(np.asarray(own[1]), arr) is not None:
            return None, "skipped"
    with sph.open_stream(kind, data, tmp) as f:
        nclass = sph.name_class(f)
        r = _call(lambda: util.read_signal(f, dtype=req, force_as=force))
    tags = dict(what="file_object", container=container, via=force, name_attr=nclass, pipe=(kind == "pipe"))
    desc = "%s %r read_signal(<%s>, force_as=%r, dtype=%r)" % (container, arr.shape, kind, force, req)
    if r[0] == "exc":
        return core.violation(dict(tags, aspect="exception", exc=type(r[1]).__name__),
                              "%s raised %s: %s" % (desc, type(r[1]).__name__, _clean(r[1])), case), "exc"
    c = _rw_compare(r[1], arr if req is None else arr.astype(req))
    if c is not None:
        return core.violation(dict(tags, aspect=c[0]), "%s: %s" % (desc, c[1]), case), c[0]
    return None, "ok"


def _fo(pt, seed):
    container, kind = pt
    viol, obs, evals, skipped = [], set(), 0, 0
    with _Tmp() as tmp:
        for shape in ([[7], [5, 3]] if container != "raw" else [[7]]):
            for force in CONTAINERS[container][1]:
                for req in ((None, "float64") if container != "raw" else (None,)):
                    case = dict(kind="file_object", container=container, stream=kind, force_as=force, dtype=req,
                                shape=shape)
                    v, o = _fo_case(case, seed, tmp)
                    if o == "skipped":
                        skipped += 1
                        continue
                    evals += 1
                    obs.add((o, req))
                    if v is not None:
                        viol.append(v)
    return core.result(viol, evals=evals, nontrivial_count=evals, skipped=skipped, obs=sorted(map(str, obs)),
                       sample=dict(container=container, file_object=kind))


def _replay_fo(case, seed):
    with _Tmp() as tmp:
        v, _ = _fo_case(case, seed, tmp)
    return core.result([v] if v is not None else [])


# ------------------------------------------------------------------ where the stream STANDS at the time of the call
#
# "from an open binary stream with force_as": the container that starts where the stream stands NOW (numpy's own
# idiom: several arrays np.save'd one after the other into one file and np.load'ed one after the other; a payload
# that follows a preamble).  The stream holds [junk preamble | another payload of the same container] + payload
# and is positioned at the start of the payload by seek(P) or by read(P); or it holds two payloads and is read
# twice in a row.  A third-party container is in the lattice iff its OWN reader, given an identically built and
# positioned object, returns the payload (read_signal hands the object to that reader: what the reader can do
# read_signal must not undo); SPHERE (the library's own reader: a header, then the samples, from where the
# stream stands) with every kind that can be positioned.

SP_JUNK = {"byte": b"\x00", "line": b"#feat v1\n", "block512": bytes((7 * i + 3) % 256 for i in range(512))}
SP_SCENARIOS = [("junk_preamble", j, how) for j in SP_JUNK for how in ("seek", "read")] + \
               [("payload_preamble", None, how) for how in ("seek", "read")] + \
               [("sequential", None, "library_read")]
SP_DTYPES = (None, "float64")
_SP_CACHE = {}


def _sp_payloads(container, seed, tmp):
    """-> (bytes A, array a, bytes B, array b): two payloads of the container, written by its own writer, of
    different shape and - where the container stores one - different dtype, other values"""
    if (container, seed) in _SP_CACHE:
        return _SP_CACHE[(container, seed)]
    k = list(CONTAINERS).index(container)
    layout = _layouts(container)[0][0]
    dt_b = HIST_STORED.get(container, "int16")
    dt_a = "float32" if container in ("npy", "npz", "pt", "hdf5") else dt_b
    out = []
    for tag, shape, dtype, off in (("A", (7,), dt_a, 400 + 4 * k),
                                   ("B", (5,) if container == "raw" else (5, 3), dt_b, 402 + 4 * k)):
        sub = os.path.join(tmp, "sp" + tag)
        os.makedirs(sub, exist_ok=True)
        arr = _values(seed, shape, dtype, offset=off, full_range=(container == "wav32"))
        other = _values(seed, (3,), dtype, offset=off + 1)
        path = os.path.join(sub, "p" + (CONTAINERS[container][0] or ".f64"))
        _write(container, layout, arr, other, other, path)
        with open(path, "rb") as f:
            out += [f.read(), arr]
    _SP_CACHE[(container, seed)] = tuple(out)
    return tuple(out)


def _sp_run(reader, kind, data, start, how, wants, tmp):
    """a fresh object of `kind` holding `data`, positioned at `start` by seek / read, then read len(wants)
    times in a row -> None when such an object cannot be positioned that way, else a list (it stops at the
    first read that fails) of ("ok",) | ("exc", exception) | (aspect, detail, got)"""
    with sph.open_stream(kind, data, tmp) as f:
        if start:
            try:
                if how == "seek":
                    f.seek(start)
                elif len(f.read(start)) != start:
                    return None
            except core.HarnessError:
                raise
            except Exception:
                return None
        out = []
        for want in wants:
            r = _call(lambda: reader(f))
            if r[0] == "exc":
                out.append(r)
                break
            got = r[1]
            c = _rw_compare(got, want)
            if c is not None:
                out.append((c[0], c[1], np.array(got) if isinstance(got, np.ndarray) else got))
                break
            out.append(("ok",))
    return out


def _sp_case(case, seed, tmp):
    """-> (violations, observation | "skipped")"""
    from pydrobert.speech import util

    container, kind, force, req, scen, junk, how = (
        case[k] for k in ("container", "stream", "force_as", "dtype", "scenario", "junk", "positioned_by"))
    if container not in ("sph01", "sph10") and kind == "pipe":
        return [], "skipped"              # not seekable: no third-party reader of these containers takes it
    A, a, B, b = _sp_payloads(container, seed, tmp)
    if scen == "junk_preamble":
        data, start, stored, earlier = SP_JUNK[junk] + B, len(SP_JUNK[junk]), [b], None
    elif scen == "payload_preamble":
        data, start, stored, earlier = A + B, len(A), [b], a
    elif scen == "sequential":
        data, start, stored, earlier = A + B, 0, [a, b], a
    else:
        raise core.HarnessError(scen)
    n = len(stored)
    if container in ("sph01", "sph10"):
        if scen == "sequential":
            return [], "skipped"          # where the library's reader leaves the stream is not stated
    else:
        own = _sp_run(lambda f: np.asarray(_fo_own_reader(container, force, f)), kind, data, start, how, stored, tmp)
        if own is None:
            return [], "skipped"
        n = sum(o == ("ok",) for o in own)        # reads in the domain: those the own reader gets right
        if n == 0 or (scen == "sequential" and n < 2):
            return [], "skipped"
    wants = [s if req is None else s.astype(req) for s in stored[:n]]
    outs = _sp_run(lambda f: util.read_signal(f, dtype=req, force_as=force), kind, data, start, how, wants, tmp)
    if outs is None:
        return [], "skipped"
    viol = []
    for i, o in enumerate(outs):
        if o == ("ok",):
            continue
        tags = dict(what="stream_position", container=container, via=force, scenario=scen, positioned_by=how,
                    read_no=i + 1)
        desc = "%s: a <%s> holding %s, %s: read_signal(f, force_as=%r, dtype=%r) no. %d, stored there: %s%r" % (
            container, kind,
            "%d junk bytes + the payload" % start if scen == "junk_preamble" else
            "two payloads one after the other (%d + %d bytes)" % (len(A), len(B)),
            "at offset 0" if not start else "positioned at offset %d by %s(%d)" % (start, how, start),
            force, req, i + 1, stored[i].dtype, stored[i].shape)
        c = dict(case, read_no=i + 1)
        if o[0] == "exc":
            viol.append(core.violation(dict(tags, aspect="exception", exc=type(o[1]).__name__),
                                       "%s: raised %s: %s" % (desc, type(o[1]).__name__, _clean(o[1])), c))
            continue
        rewound = False
        if earlier is not None and (start or i) and isinstance(o[2], np.ndarray):
            rewound = _rw_compare(o[2], earlier if req is None else earlier.astype(req)) is None
        viol.append(core.violation(dict(tags, aspect=o[0], payload_at_offset_0_returned=rewound),
                                   "%s: %s%s" % (desc, o[1], " (it is the payload at offset 0 of the stream)"
                                                 if rewound else ""), c))
    return viol, ("ok" if not viol else viol[0]["tags"]["aspect"])


def _sp_cases(container, kind):
    for force in CONTAINERS[container][1]:
        for scen, junk, how in SP_SCENARIOS:
            for req in (SP_DTYPES if container != "raw" else SP_DTYPES[:1]):
                yield dict(kind="stream_position", container=container, stream=kind, force_as=force, dtype=req,
                           scenario=scen, junk=junk, positioned_by=how)


def _sp(pt, seed):
    container, kind = pt
    viol, obs, evals, skipped = [], set(), 0, 0
    with _Tmp() as tmp:
        for case in _sp_cases(container, kind):
            v, o = _sp_case(case, seed, tmp)
            if o == "skipped":
                skipped += 1
                continue
            evals += 1
            obs.add((o, case["scenario"], case["dtype"]))
            viol += v
    return core.result(viol, evals=evals, nontrivial_count=evals, nontrivial=evals > 0, skipped=skipped,
                       obs=sorted(map(str, obs)), sample=dict(container=container, file_object=kind))


def _replay_sp(case, seed):
    with _Tmp() as tmp:
        v, _ = _sp_case({k: x for k, x in case.items() if k != "read_no"}, seed, tmp)
    return core.result([x for x in v if case.get("read_no") in (None, x["case"]["read_no"])])


# ------------------------------------------------------------------ registration


def _replay(case, seed):
    k = case.get("kind")
    if k == "roundtrip":
        return _replay_roundtrip(case, seed)
    if k == "sph_reads":
        return _replay_sph_reads(case, seed)
    if k == "wds":
        return _replay_wds(case, seed)
    if k in ("history", "history_run"):
        return _replay_history(case, seed)
    if k == "rewrite":
        return _replay_rewrite(case, seed)
    if k == "long_input":
        return _replay_long(case, seed)
    if k == "file_object":
        return _replay_fo(case, seed)
    if k == "stream_position":
        return _replay_sp(case, seed)
    return _replay_error(case, seed)


def subchecks(tier, seed):
    rt = [(c, list(s), d) for c, spec in CONTAINERS.items() for s in spec[2] for d in spec[3]]
    kmax = SPH_KMAX[tier]
    sr = [(c, ch, n) for c in ("sph01", "sph10") for ch in SPH_CHANNELS for n in _sph_counts(ch, kmax)]
    sr += [(c, ch, n) for c in ("sph01", "sph10") for ch in SPH_WIDE_CHANNELS for n in SPH_WIDE_COUNTS]
    wds_pts, fams = _wds_points(tier, seed)
    sizes = {n: len(v[1]) for n, v in _seed_files(seed).items()}
    hist = [(alph, depth, i) for alph, depth in HIST_PLAN[tier] for i in range(len(_hist_calls(alph)))]
    return [
        # first in the list: its children must start from the state "just imported" also when every
        # sub-check runs in one process (VERIF_NPROC=1)
        core.SubCheck(
            "histories", hist, lambda p: _histories(p, seed),
            "call histories in ONE interpreter, every result HELD by the caller.  Alphabet of calls: a "
            "successful read of every container (two files a / b of equal shape and dtype, 12 values each) x "
            "access {suffix-inferred path, BytesIO + force_as; raw binary: path / open file + "
            "force_as='file'} x requested dtype {None, float64}; every documented error case (existing / "
            "missing name without a recognised suffix, BytesIO / open file without force_as, unknown "
            "force_as with a path / a BytesIO); existing decodable files named take1.<w> for every force_as "
            "word w that is not a suffix (file, soundfile, table, kaldi => IOError).  %s; the histories of a point "
            "run one after the other in one forked child (state at its start: 'just imported'), the first violation "
            "of every signature is confirmed by running its history alone in a fresh child.  After every call: its outcome is what the "
            "property demands of that call alone (stored array / exception class), every array returned "
            "earlier still equals what it was when returned, pydrobert.speech.config is unchanged; after "
            "the last call no two returned arrays share memory; then the caller overwrites every returned "
            "array and the sequence is repeated with the same demands; non-trivial = more than one call" % (
                "; ".join("every sequence of 1..%d calls over the %s alphabet (%d calls)" % (
                    d, a, len(_hist_calls(a))) for a, d in HIST_PLAN[tier])),
            axes=dict(containers=list(CONTAINERS), variants=list(HIST_VARIANTS), dtypes=list(HIST_DTYPES),
                      error_calls=HIST_ERRORS, error_calls_short=HIST_ERRORS_SHORT,
                      keyword_named_files=HIST_KEYWORDS,
                      alphabets={a: len(_hist_calls(a)) for a, _ in HIST_PLAN[tier]},
                      depth={a: d for a, d in HIST_PLAN[tier]}),
            replay=lambda case: _replay(case, seed), kind="histories"),
        core.SubCheck(
            "roundtrip", rt, lambda p: _roundtrip(p, seed),
            "per point (container, shape, stored dtype) the file is written by the container's own "
            "writer and read back for every layout/key x access (suffix-inferred path, path below "
            "dotted directories, path+force_as, open file+force_as, BytesIO+force_as, wds_read_signal("
            "'utt'+suffix, bytes) where neither key nor dtype is asked for) x requested "
            "dtype {None,int16,int32,float32,float64}: array_equal, same shape and dtype as "
            "stored.astype(requested); non-trivial = non-empty array",
            axes=dict(container=list(CONTAINERS), audio_shapes=AUDIO_SHAPES, array_shapes=ARRAY_SHAPES,
                      array_dtypes=ARRAY_DTYPES, requested=REQUESTED,
                      npz_layouts=[list(map(str, l)) for l in _layouts("npz")],
                      hdf5_layouts=[list(map(str, l)) for l in _layouts("hdf5")]),
            replay=lambda case: _replay(case, seed)),
        core.SubCheck(
            "sph_reads", sr, lambda p: _sph_reads(p, seed),
            "16-bit PCM SPHERE files from mc/refs/sphere.py; per point (byte order, channels 1..7, "
            "frame count in {k*q-1..k*q+1, floor(k*16384/f)-1..+1 : k=1..%d}, f = frame bytes, q = "
            "16384//f, i.e. files of 1..%d reads of 16384 bytes; and channels 8191, 8192, 8193, 16385 - one "
            "frame of 16382, 16384, 16386, 32770 bytes - x 1..3 frames) the inner loop is header {1024 bytes with "
            "optional fields, 1025, 1500 and 4000 bytes, 2048 bytes with every mandatory field beyond "
            "byte 1024} x "
            "access {suffix-inferred path, path below dotted directories, path+force_as, open "
            "file+force_as, BytesIO+force_as, wds_read_signal('utt.sph', bytes)} x requested dtype "
            "{None,int16,int32,float32,float64} (wds_read_signal takes no dtype: None only): "
            "array_equal, same shape and dtype as stored.astype(requested); non-trivial = more than "
            "one read" % (kmax, kmax + 1),
            axes=dict(container=["sph01", "sph10"], channels=SPH_CHANNELS, wide_channels=SPH_WIDE_CHANNELS,
                      wide_counts=SPH_WIDE_COUNTS,
                      count="k*q-1..k*q+1, floor(k*16384/f)-1..+1, k=1..%d" % kmax, header=SPH_HEADERS,
                      access=[list(map(str, a)) for a in _sph_accesses()], requested=REQUESTED),
            replay=lambda case: _replay(case, seed)),
        core.SubCheck(
            "errors", _error_points(), lambda p: _errors(p, seed),
            "%d unrecognised names (existing and missing, absolute and relative) => IOError; a stream "
            "of every container (open file whose .name has a recognised suffix, BytesIO) without "
            "force_as => ValueError; %d unknown force_as values with a path, an open file and a "
            "BytesIO => ValueError; each x dtype/key variants; two positive controls" % (
                len(BAD_NAMES), len(BAD_FORCE)),
            axes=dict(bad_names=BAD_NAMES, bad_force_as=BAD_FORCE, containers=list(CONTAINERS)),
            replay=lambda case: _replay(case, seed)),
        core.SubCheck(
            "wds_garbage", wds_pts, lambda p: _wds(p, seed),
            "wds_read_signal(key, data) in a forked child for key in %d suffixes x data in {257 strings "
            "of length <= 1, %s, every prefix of each small valid file (the intact file must decode to "
            "the stored array under its own suffix), %s at every offset, two valid HDF5 files with "
            "hard-link cycles (must decode under .hdf5)}: None or ndarray, no "
            "exception, no crash, no hang; every (key, byte string) pair is distinct within its family "
            "and counted as non-trivial" % (
                len(WDS_KEYS),
                "all 65536 two-byte strings" if tier == "thorough" else "256 two-byte strings over 16 magic bytes",
                "11 substitutions (every single-bit flip, b^0xFF, b^0x55, b^0xAA)" if tier == "thorough"
                else "3 substitutions (b^0xFF, b^0x80, b^0x01)"),
            axes=dict(keys=WDS_KEYS, families=fams, valid_file_bytes=sizes, alphabet=ALPHABET,
                      substitutions=("8 single-bit flips, b^0xFF, b^0x55, b^0xAA" if tier == "thorough"
                                     else "b^0xFF, b^0x80, b^0x01")),
            replay=lambda case: _replay(case, seed), chunk=1, kind="fault_enumeration"),
        core.SubCheck(
            "rewrite", [(c, w) for c in CONTAINERS for w in RW_WAYS], lambda p: _rewrite(p, seed),
            "a file REWRITTEN between reads, in one interpreter: per point (container, way of rewriting in "
            "{truncate and write in place, the same with the old time stamps put back, remove and create, "
            "os.replace from a staging directory with the old time stamps put back}) every history v_a v_b and "
            "v_a v_b v_a over the versions {0: base array, 1: same shape and dtype, other values (npz: compressed), "
            "2: another shape and - where the suffix allows - stored dtype (wav: the other sample width, sph: the "
            "other byte order, mono instead of 2 channels), 3 (npz, hdf5): entries under other names} written "
            "to ONE path with the container's own writer; after every write every entry (key None and every name "
            "the file holds) is read through {suffix-inferred path, path + force_as, open file + force_as} x dtype "
            "{None, float64} and must be what was written LAST (shape, dtype, values); a wrong result that equals "
            "what the path held before is tagged stale; every evaluation is non-trivial",
            axes=dict(container=list(CONTAINERS), way=list(RW_WAYS), versions="0..2 (npz, hdf5: 0..3)",
                      histories="every (a, b) and (a, b, a), a != b", dtype=list(RW_DTYPES)),
            replay=lambda case: _replay(case, seed), chunk=1, kind="histories"),
        core.SubCheck(
            "long_inputs", [(c, n, ch) for c in CONTAINERS for n in LONG_FRAMES for ch in LONG_CHANNELS
                            if ch == 1 or c != "raw"] + LONG_EXTRA,     # raw binary stores rank 1 only
            lambda p: _long(p, seed),
            "long inputs through every reader: per point (container, frames in %r, channels in %r; and 2**20 + 1 "
            "frames x 2 channels for wav16 / wav32 / flac / aiff) the array (frames,) / (frames, channels) is written "
            "with the container's own writer (SPHERE: reference header + the samples in the header's byte order) "
            "and read back through every access of roundtrip (suffix-inferred path, path + force_as, open file + "
            "force_as, BytesIO + force_as - wav also through force_as='soundfile' -, wds_read_signal) x dtype "
            "{None, float32}: same shape, dtype and values; every evaluation is non-trivial" % (
                list(LONG_FRAMES), list(LONG_CHANNELS)),
            axes=dict(container=list(CONTAINERS), frames=list(LONG_FRAMES), channels=list(LONG_CHANNELS),
                      extra=[list(x) for x in LONG_EXTRA], dtype=list(LONG_DTYPES)),
            replay=lambda case: _replay(case, seed), chunk=1),
        core.SubCheck(
            "file_objects", [(c, k) for c in CONTAINERS for k in sph.STREAM_KINDS], lambda p: _fo(p, seed),
            "read_signal(f, force_as=...) through EVERY kind of binary file object of mc/refs/sphere.py "
            "STREAM_KINDS %r x container x shape {(7,), (5,3)} x every force_as of the container x dtype {None, "
            "float64}.  In the lattice: SPHERE with every kind (the library's own reader: read(n) is all it may "
            "need); any other container with the kinds from which the container's OWN reader (wave, soundfile, "
            "numpy.load, torch.load, h5py, numpy.fromfile) returns the stored array when given such an object "
            "directly - the others, and a pipe (not seekable), are skipped; same shape, dtype and values as stored.astype(dtype)" % (
                list(sph.STREAM_KINDS),),
            axes=dict(container=list(CONTAINERS), file_object=list(sph.STREAM_KINDS), dtype=[None, "float64"]),
            replay=lambda case: _replay(case, seed)),
        core.SubCheck(
            "stream_position", [(c, k) for c in CONTAINERS for k in sph.STREAM_KINDS], lambda p: _sp(p, seed),
            "where the stream STANDS at the time of the call: per point (container, kind of file object of "
            "STREAM_KINDS) x every force_as of the container x dtype {None, float64} x scenario {a junk preamble "
            "(1 zero byte, a 9-byte text line, 512 patterned bytes) + the payload; another payload of the same "
            "container (other shape, other stored dtype where the container has one, other values) + the payload - "
            "each with the object positioned at the start of the payload by seek(P) and by read(P); two payloads "
            "one after the other in an object at offset 0, read_signal called twice in a row}: every call returns "
            "the payload that starts where the stream stands (shape, dtype, values of stored.astype(dtype)); a wrong "
            "result that equals the payload at offset 0 is tagged.  In the lattice: SPHERE with every kind that can be "
            "positioned that way (sequential reads excepted: where its reader leaves the stream is not stated); any other "
            "container iff the container's OWN reader (wave, soundfile, numpy.load, torch.load, h5py, numpy.fromfile) "
            "returns the payload(s) from an identically built and positioned object - the others are skipped",
            axes=dict(container=list(CONTAINERS), file_object=list(sph.STREAM_KINDS), dtype=list(SP_DTYPES),
                      scenario=[list(map(str, x)) for x in SP_SCENARIOS],
                      junk={k: len(v) for k, v in SP_JUNK.items()}),
            replay=lambda case: _replay(case, seed)),
    ]
