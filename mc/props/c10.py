"""C10 - signals-to-torch-feat-dir survives kill / resume and parallelism (engine F).

The REAL console script is run as a subprocess and interrupted at EVERY state-changing syscall
that touches the output directory, a feature file or the manifest (mc/crash.py: strace fault
injection, SIGKILL = hard kill, SIGINT = soft interrupt).  After every interruption

  I1  every id in the manifest has a feature file that torch.load()s and equals the file of the
      uninterrupted run;
  I2  every utterance whose file is complete, except the one in flight at the kill point (known
      from the counting run's event list), is in the manifest;

then the same command is run again (resume) and

  I3  the directory is file-for-file identical (tensors, and bytes when torch.save is byte
      deterministic here) to the uninterrupted run - with --preprocess '["dither"]' and a fixed
      --seed, so that re-seeding is observable;
  I4  files of ids that were already in the manifest were not rewritten (inode / mtime / size and a
      sentinel overwrite that must survive).

thorough adds second-order kills (kill, resume, kill, resume).  Parallelism: real runs with
--num-workers 0..3 must give identical directories, and the repository-side mechanism (the real
dataset object the tool builds, captured from the tool itself) is driven for every assignment of
n <= 4 items to <= 3 simulated workers and every per-worker order, each worker carrying its own
dirty torch RNG state; the same dataset is also rebuilt for every manifest prefix.

large_manifest: the real tool, in-process, on maps of up to 3200 (thorough 6400) utterances with
40-character ids whose manifests cross 4 KiB, 8 KiB, 64 KiB and 128 KiB (256 KiB), the manifest ending
within a few lines of each of these sizes, for every alignment of the lines relative to the block grid.

manifest_subsets: the real tool, in-process, for every order of 4 related utterance ids in the map
(prefix / suffix / substring of one another, number look-alikes, case / suffix look-alikes), --seed 0
and 3, and EVERY subset of the ids already listed in the manifest (lines in map order and reversed):
listed files are not touched, all others equal the uninterrupted run.  The ids of the kill / resume
scenarios are related in the same way ("1_a", "1", "11_a"), so that a resume which matches ids by
anything but whole-line equality is also seen after real kills.
"""
import itertools
import json
import os
import shutil
import tempfile

import numpy as np

from .. import core, crash, sig

LEVEL = "fault_enumeration"
ASSUMPTIONS = [
    "crash points are process kills at syscall granularity (page cache survives; no torn sectors); "
    "strace delivers the signal on entry to the K-th traced syscall (probed at run time: SIGKILL "
    "prevents the call, SIGINT lets it complete and Python raises KeyboardInterrupt afterwards)",
    "read-only syscalls on the output paths (stat, lseek, read, ioctl ...) are not kill points: the "
    "durable state there equals the state at the next state-changing call",
    "the OS schedule of DataLoader worker processes is not controlled: runs with 0-3 workers are "
    "single observed schedules; what is enumerated exhaustively is the repository-side mechanism "
    "(per-item re-seeding) over all worker assignments and per-worker orders of n <= 4 items",
    "utterance ids: printable ASCII without white space ('<utt_id> <path>' lines); the manifests handed "
    "to manifest_subsets hold only ids of the same map, one per line, as the tool itself writes them",
    "every real run (uninterrupted, counting, interrupted, resumed, 0-3 workers) is a separate interpreter "
    "with its own fixed str-hash salt (PYTHONHASHSEED 0, 1, 2, 3 ...): outputs may not depend on it",
    "sample values: one generic signal per utterance; one utterance is long enough for torch.save to "
    "split its file over two syscalls (mid-file kill point)",
]

CFG_STFT = {"name": "stft", "bank": {"name": "fbank", "num_filts": 3, "low_hz": 0.0,
                                     "sampling_rate": 1000},
            "frame_length_ms": 6.5, "frame_shift_ms": 2.5, "window_function": "hamming"}
CFG_SI = {"name": "si", "bank": {"name": "gabor", "num_filts": 2, "low_hz": 0.0,
                                 "sampling_rate": 1000, "scaling_function": {"name": "linear", "low_hz": 0.0}},
          "frame_shift_ms": 2.5, "frame_style": "causal", "window_function": "hamming"}

# Utterance ids are chosen so that ids are related as strings, in both map orders: in stft3 the
# second id ("1") is a substring (prefix) of the first ("1_a"), and the first two are substrings (a
# suffix, a prefix) of the third ("11_a"); "1" also looks like a number.  A resume that matches ids
# against the manifest by anything but whole-line equality skips or recomputes the wrong utterance.
SCENARIOS = {
    "stft3": dict(computer=CFG_STFT, utts=[("1_a", 40), ("1", 6000), ("11_a", 47)], extra=[]),
    # the documented naming options, non-default: <prefix><id><suffix>.  The prefix is itself an id
    # ("1"), so that the file NAME of the first utterance without its suffix ("11_a") is the ID of the
    # third: whoever confuses names and ids (in the manifest, in the work list) is seen.
    "stft3p": dict(computer=CFG_STFT, utts=[("1_a", 40), ("1", 6000), ("11_a", 47)],
                   extra=["--file-prefix", "1", "--file-suffix", ".feat"]),
    "stft4": dict(computer=CFG_STFT, utts=[("1_a", 40), ("1", 6000), ("11_a", 47), ("a", 33)], extra=[]),
    "si5": dict(computer=CFG_SI, utts=[("b", 30), ("ab", 41), ("long", 9000), ("a", 36), ("p_abc", 52)],
                extra=["--file-prefix", "p_", "--file-suffix", ".feat"]),
    "raw3w": dict(computer=None, utts=[("01", 50), ("1", 9000), ("10", 61)],
                  extra=["--num-workers", "2"], seed="0"),
}
# str-hash salt (PYTHONHASHSEED) of the interpreters of the real runs: a user's interpreters are salted at
# random, so the uninterrupted run, the interrupted run and the resume never share a salt; fixed and
# different values keep the verdict deterministic (./check itself pins 0, which a child would inherit)
SALTS = dict(reference="0", count="1", kill="2", resume="3", kill2="4", resume2="5")
SEED_OPT = "3"                      # scenarios without a "seed" entry
SEED_OPTS = ("0", "3")              # manifest_subsets axis: --seed 0 is a seed like any other

# id sets of the manifest_subsets sub-check (4 ids each; every map order and every manifest subset)
ID_SETS = {
    # prefix / suffix / infix relations
    "substr": ["1", "11", "1_a", "a"],
    # ids that are equal when read as numbers, or as numbers with another radix / format
    "numeric": ["1", "01", "1.0", "10"],
    # case, an id that contains the default file suffix, an id that contains another id + separator
    "affix": ["a", "A", "a.pt", "x-a"],
}


# file naming axis of manifest_subsets: the documented options --file-prefix / --file-suffix
NAMINGS = {
    "default": lambda ids: [],
    "both": lambda ids: ["--file-prefix", "p_", "--file-suffix", ".feat"],
    # the prefix is one of the ids: <prefix><id> of one utterance may be the id of another
    "id_prefix": lambda ids: ["--file-prefix", ids[0]],
}


# ------------------------------------------------------------------ layout of one run directory

class Layout:
    def __init__(self, d, scn, seed):
        self.d, self.scn = d, scn
        s = SCENARIOS[scn]
        self.utts = [u for u, _ in s["utts"]]
        ex = s["extra"]
        self.prefix = ex[ex.index("--file-prefix") + 1] if "--file-prefix" in ex else ""
        self.suffix = ex[ex.index("--file-suffix") + 1] if "--file-suffix" in ex else ".pt"
        self.out = os.path.join(d, "out")
        self.manifest = os.path.join(d, "manifest")
        self.map = os.path.join(d, "map")
        ind = os.path.join(d, "in")
        os.makedirs(ind)
        with open(self.map, "w") as f:
            for i, (u, n) in enumerate(s["utts"]):
                p = os.path.join(ind, u + ".npy")
                np.save(p, np.round(sig.signal(seed, n, offset=300 + i) * 1000.0))
                f.write("%s %s\n" % (u, p))
        self.extra = list(ex)
        self.seed_opt = s.get("seed", SEED_OPT)

    def file(self, u):
        return os.path.join(self.out, self.prefix + u + self.suffix)

    def utt_of(self, path):
        b = os.path.basename(path)
        for u in self.utts:
            if b == self.prefix + u + self.suffix:
                return u
        return None

    def paths(self):
        return [self.out, self.manifest] + [self.file(u) for u in self.utts]

    def args(self, manifest=True, extra=()):
        s = SCENARIOS[self.scn]
        a = [self.map]
        if s["computer"] is not None:
            a.append(json.dumps(s["computer"]))
        a += [self.out, "--seed", self.seed_opt, "--preprocess", '["dither"]'] + self.extra + list(extra)
        if manifest:
            a += ["--manifest", self.manifest]
        return a

    def norm(self, path):
        return None if path is None else path.replace(self.d, "@")

    def read_files(self):
        out = {}
        for u in self.utts:
            p = self.file(u)
            if os.path.exists(p):
                with open(p, "rb") as f:
                    out[u] = f.read()
        return out

    def manifest_ids(self):
        if not os.path.exists(self.manifest):
            return []
        with open(self.manifest) as f:
            return [ln.strip() for ln in f if ln.strip()]

    def clone_state_to(self, other):
        if os.path.isdir(self.out):
            shutil.copytree(self.out, other.out)
        if os.path.exists(self.manifest):
            shutil.copy2(self.manifest, other.manifest)


# ------------------------------------------------------------------ injectors

class Injector:
    """uniform view of the strace injector and the Python-level fallback"""

    def __init__(self, kind):
        self.kind = kind

    def count(self, lay, args, salt=None):
        salt = SALTS["count"] if salt is None else salt
        if self.kind == "strace":
            r, ev = crash.strace_count(args, lay.paths(), hashseed=salt)
            ev = [(c, lay.norm(p)) for c, p in ev]
        else:
            r, ev = crash.py_count(args, hashseed=salt)
            ev = [(c, lay.norm(p)) for c, p in ev]
        return r, ev

    def kill(self, lay, args, name, k, sg, salt=None):
        salt = SALTS["kill"] if salt is None else salt
        if self.kind == "strace":
            return crash.strace_kill(args, lay.paths(), name, k, sg, hashseed=salt)
        return crash.py_kill(args, name, k, sg, hashseed=salt)

    def points(self, events):
        """-> [(name, k, index into events)] for every state-changing event"""
        seen, out = {}, []
        for i, (c, _p) in enumerate(events):
            seen[c] = seen.get(c, 0) + 1
            if self.kind == "strace" and c in crash.READONLY:
                continue
            out.append((c, seen[c], i))
        return out


def inflight(events, name, k, lay):
    """utterance whose file the K-th `name` event (or the latest file event before it) touches"""
    n = 0
    last = None
    for c, p in events:
        if p is not None and p.startswith("@/out/"):
            u = lay.utt_of(p)
            if u is not None:
                last = u
        if c == name:
            n += 1
            if n == k:
                return last, True
    return last, False


# ------------------------------------------------------------------ reference (parent process)

def build_reference(scn, seed, inj):
    """uninterrupted run (plain) + counting run, in the parent; no torch import here"""
    import threading

    d = tempfile.mkdtemp(prefix="verif-")
    try:
        res = {}

        def plain():
            lay = Layout(os.path.join(d, "a"), scn, seed)
            r = crash.plain(lay.args(), hashseed=SALTS["reference"])
            res["plain"] = (r, lay.read_files(), lay.manifest_ids())

        def counting():
            lay = Layout(os.path.join(d, "b"), scn, seed)
            r, ev = inj.count(lay, lay.args())
            res["count"] = (r, lay.read_files(), ev)

        os.makedirs(os.path.join(d, "a"))
        os.makedirs(os.path.join(d, "b"))
        ts = [threading.Thread(target=plain), threading.Thread(target=counting)]
        for t in ts:
            t.start()
        for t in ts:
            t.join()
        if "plain" not in res or "count" not in res:
            raise core.HarnessError("reference runs did not finish")
        r, files, man = res["plain"]
        utts = [u for u, _ in SCENARIOS[scn]["utts"]]
        if r["rc"] != 0 or sorted(files) != sorted(utts):
            raise core.HarnessError("uninterrupted run failed: rc=%r files=%r %s" % (
                r["rc"], sorted(files), r["err"][-400:]))
        r2, files2, ev = res["count"]
        if r2["rc"] != 0 or not ev:
            raise core.HarnessError("counting run failed: rc=%r events=%d %s" % (
                r2["rc"], len(ev), r2["err"][-400:]))
        return dict(scn=scn, files=files, bytes_det=(files == files2), events=ev, manifest=man)
    finally:
        shutil.rmtree(d, ignore_errors=True)


# ------------------------------------------------------------------ state inspection (workers)

def _torch():
    import torch

    torch.set_num_threads(1)
    return torch


def load_bytes(b):
    import io

    torch = _torch()
    try:
        t = torch.load(io.BytesIO(b))
    except Exception as e:
        return None, "%s: %s" % (type(e).__name__, str(e)[:80])
    if not isinstance(t, torch.Tensor):
        return None, "not a tensor: %r" % type(t)
    return t, None


def same_tensor(a, b):
    torch = _torch()
    return a.dtype == b.dtype and a.shape == b.shape and bool(torch.equal(a, b))


def inspect_state(lay, ref):
    """-> dict(manifest=[ids], loadable={utt}, equal={utt}, present={utt})"""
    files = lay.read_files()
    loadable, equal = set(), set()
    for u, b in files.items():
        t, _ = load_bytes(b)
        if t is None:
            continue
        loadable.add(u)
        rt, _ = load_bytes(ref["files"][u])
        if same_tensor(t, rt) and (not ref["bytes_det"] or b == ref["files"][u]):
            equal.add(u)
    return dict(manifest=lay.manifest_ids(), loadable=loadable, equal=equal, present=set(files))


def must_be_listed(lay, st, infl, prev_must=None):
    """ids whose save + manifest line completed in some run: complete files other than the one in
    flight.  In a resumed run (prev_must given) a complete file may also be the leftover of the
    utterance that was in flight at the previous interruption and has not been reached again; only
    utterances that precede the current in-flight one in the map were finished by this run."""
    if prev_must is None:
        return [u for u in lay.utts if u in st["loadable"] and u != infl]
    pos = lay.utts.index(infl) if infl in lay.utts else -1
    return [u for i, u in enumerate(lay.utts)
            if u in st["loadable"] and u != infl and (u in prev_must or i < pos)]


def check_after_kill(lay, ref, st, infl, tags, case, prev_must=None):
    viol = []
    for u in st["manifest"]:
        if u not in lay.utts:
            viol.append(core.violation(
                dict(tags, what="manifest_lists_incomplete", how="unknown_id"),
                "manifest line %r is not an utterance id" % u, case))
        elif u not in st["equal"]:
            how = "missing_file" if u not in st["present"] else (
                "not_loadable" if u not in st["loadable"] else "differs")
            if how == "differs" and prev_must is not None:
                # complete and loadable, but written by a RESUMED run with other values: that is
                # I3's subject (identical to the uninterrupted run), not I1's
                viol.append(core.violation(
                    dict(tags, what="resume_differs", how="values", manifest_nonempty=True),
                    "I3: %s was recomputed by a resumed run, is listed in the manifest, and differs "
                    "from the uninterrupted run with the same --seed (manifest %r)" % (u, st["manifest"]),
                    case))
                continue
            viol.append(core.violation(
                dict(tags, what="manifest_lists_incomplete", how=how),
                "I1: %s is in the manifest but its file is %s (manifest %r, complete files %r)" % (
                    u, how, st["manifest"], sorted(st["loadable"])), case))
    if len(set(st["manifest"])) != len(st["manifest"]):
        viol.append(core.violation(dict(tags, what="manifest_lists_incomplete", how="duplicate_id"),
                                   "manifest lists an id twice: %r" % st["manifest"], case))
    must = must_be_listed(lay, st, infl, prev_must)
    miss = [u for u in must if u not in st["manifest"]]
    if miss:
        viol.append(core.violation(
            dict(tags, what="manifest_misses_completed"),
            "I2: files of %r are complete and loadable and the utterance in flight is %r, but the "
            "manifest holds only %r" % (miss, infl, st["manifest"]), case))
    return viol


SENTINEL = b"VERIF-SENTINEL: a file listed in the manifest must not be rewritten\n"


def mark(lay, st):
    """record identity of files listed in the manifest; overwrite the first with a sentinel"""
    marks = {}
    listed = [u for u in lay.utts if u in st["manifest"] and u in st["present"]]
    for i, u in enumerate(listed):
        p = lay.file(u)
        if i == 0:
            with open(p, "r+b") as f:
                f.truncate(0)
                f.write(SENTINEL)
        s = os.stat(p)
        marks[u] = (s.st_ino, s.st_mtime_ns, s.st_size, i == 0)
    return marks


def check_after_resume(lay, ref, st_kill, marks, r, tags, case):
    viol = []
    nonempty = bool(st_kill["manifest"])
    if r["rc"] != 0 or r["timed_out"]:
        viol.append(core.violation(
            dict(tags, what="resume_differs", how="exit_code", manifest_nonempty=nonempty),
            "I3: the resume run exited with %r: %s" % (r["rc"], r["err"][-300:]), case))
    # I4
    for u, (ino, mt, size, sentinel) in marks.items():
        p = lay.file(u)
        if not os.path.exists(p):
            viol.append(core.violation(dict(tags, what="rewritten", how="removed"),
                                       "I4: %s was in the manifest and its file disappeared" % u, case))
            continue
        s = os.stat(p)
        with open(p, "rb") as f:
            b = f.read()
        if (s.st_ino, s.st_mtime_ns, s.st_size) != (ino, mt, size) or (sentinel and b != SENTINEL):
            viol.append(core.violation(
                dict(tags, what="rewritten", how="rewritten"),
                "I4: %s was listed in the manifest before the resume but its file was written again "
                "(inode/mtime/size %r -> %r, sentinel intact: %s)" % (
                    u, (ino, mt, size), (s.st_ino, s.st_mtime_ns, s.st_size),
                    (b == SENTINEL) if sentinel else "n/a"), case))
    # I3
    files = lay.read_files()
    bad = {}
    for u in lay.utts:
        if u in marks and marks[u][3]:
            continue  # sentinel file: its content was verified by I1 before it was overwritten
        if u not in files:
            bad[u] = "missing"
            continue
        t, err = load_bytes(files[u])
        rt, _ = load_bytes(ref["files"][u])
        if t is None:
            bad[u] = "not loadable (%s)" % err
        elif not same_tensor(t, rt):
            bad[u] = "tensor differs (max |d| %.3g)" % (
                float((t.double() - rt.double()).abs().max()) if t.shape == rt.shape and t.numel() else -1)
        elif ref["bytes_det"] and files[u] != ref["files"][u]:
            bad[u] = "bytes differ"
    extra = sorted(set(os.listdir(lay.out)) - set(os.path.basename(lay.file(u)) for u in lay.utts)) \
        if os.path.isdir(lay.out) else []
    if bad or extra:
        recomputed = [u for u in lay.utts if u not in st_kill["manifest"]]
        how = "values" if all(v.startswith("tensor differs") or v == "bytes differ" for v in bad.values()) \
            and bad and not extra else "files"
        viol.append(core.violation(
            dict(tags, what="resume_differs", how=how, manifest_nonempty=nonempty),
            "I3: after the resume %r differ from the uninterrupted run with the same --seed "
            "(manifest at the interruption %r, recomputed %r, unexpected files %r)" % (
                bad, st_kill["manifest"], recomputed, extra), case))
    man = lay.manifest_ids()
    if r["rc"] == 0 and sorted(set(man)) != sorted(lay.utts):
        pass  # the property does not state what the manifest holds after a clean exit
    return viol


# ------------------------------------------------------------------ kill / resume points

def _kill_point(pt, ctx, seed):
    """pt: dict(scn, name, k, sig[, second=[name2, k2]])"""
    ref, inj = ctx["refs"][pt["scn"]], ctx["inj"]
    sg = pt["sig"]
    tags = dict(signal=sg, order=1)
    root = tempfile.mkdtemp(prefix="verif-")
    viol, evals, runs = [], 0, 0
    obs = []
    try:
        d1 = os.path.join(root, "k1")
        os.makedirs(d1)
        lay = Layout(d1, pt["scn"], seed)
        infl, found = inflight(ref["events"], pt["name"], pt["k"], lay)
        if not found:
            raise core.HarnessError("kill point %r is beyond the counting run" % (pt,))
        r = inj.kill(lay, lay.args(), pt["name"], pt["k"], sg)
        runs += 1
        if r["timed_out"]:
            raise core.HarnessError("kill run timed out: %r" % (pt,))
        if sg == "KILL" and r["rc"] not in (-9, 137):
            raise core.HarnessError("SIGKILL at %r did not fire: rc=%r %s" % (pt, r["rc"], r["err"][-300:]))
        st = inspect_state(lay, ref)
        fired = r["rc"] != 0
        obs.append(("k1", fired, len(st["manifest"]), len(st["loadable"])))
        if pt.get("second") is None and not pt.get("second_order"):
            case = dict(pt)
            viol += check_after_kill(lay, ref, st, infl, tags, case)
            marks = mark(lay, st)
            r2 = crash.plain(lay.args(), hashseed=SALTS["resume"])
            runs += 1
            viol += check_after_resume(lay, ref, st, marks, r2, tags, case)
            evals = 1
            nontriv = fired and len(st["loadable"]) < len(lay.utts)
            return core.result(viol, evals=1, nontrivial=nontriv, obs=obs, impl_calls=runs,
                               sample=dict(pt, inflight=infl, manifest_after_kill=st["manifest"],
                                           complete_files=sorted(st["loadable"]), rc=r["rc"]))
        # ---- second order: resume under the injector, again killed at every point
        tags = dict(signal=sg, order=2)
        must1 = must_be_listed(lay, st, infl)
        dc = os.path.join(root, "count")
        os.makedirs(dc)
        layc = Layout(dc, pt["scn"], seed)
        lay.clone_state_to(layc)
        rc_, ev2 = inj.count(layc, layc.args())
        runs += 1
        if rc_["rc"] != 0 and not ev2:
            raise core.HarnessError("counting resume failed: %r" % (rc_,))
        pts2 = inj.points(ev2)
        if pt.get("second") is not None:
            pts2 = [p for p in pts2 if [p[0], p[1]] == list(pt["second"])]
        nontriv = 0
        for j, (name2, k2, _i) in enumerate(pts2):
            d2 = os.path.join(root, "k2_%d" % j)
            os.makedirs(d2)
            lay2 = Layout(d2, pt["scn"], seed)
            lay.clone_state_to(lay2)
            infl2, _ = inflight(ev2, name2, k2, lay2)
            case = dict(pt, second=[name2, k2])
            ra = inj.kill(lay2, lay2.args(), name2, k2, sg, salt=SALTS["kill2"])
            runs += 1
            if ra["timed_out"]:
                raise core.HarnessError("second kill run timed out: %r" % (case,))
            st2 = inspect_state(lay2, ref)
            # files written by the first (interrupted + possibly wrongly seeded) run are judged by the
            # first-order sub-check; here only ids that are in the manifest must be right (I1), etc.
            viol += check_after_kill(lay2, ref, st2, infl2, tags, case, prev_must=must1)
            marks = mark(lay2, st2)
            rb = crash.plain(lay2.args(), hashseed=SALTS["resume2"])
            runs += 1
            viol += check_after_resume(lay2, ref, st2, marks, rb, tags, case)
            evals += 1
            nontriv += 1 if ra["rc"] != 0 else 0
            obs.append(("k2", ra["rc"] != 0, len(st2["manifest"]), len(st2["loadable"])))
            shutil.rmtree(d2, ignore_errors=True)
        return core.result(viol, evals=evals, nontrivial_count=nontriv, obs=obs, impl_calls=runs,
                           sample=dict(pt, second_points=len(pts2)))
    finally:
        shutil.rmtree(root, ignore_errors=True)


# ------------------------------------------------------------------ real runs with 0..3 workers

def _workers_point(pt, ctx, seed):
    scn, n = pt
    ref = ctx["refs"][scn]
    d = tempfile.mkdtemp(prefix="verif-")
    try:
        lay = Layout(os.path.join(d, "w"), scn, seed)
        r = crash.plain(lay.args(manifest=(n % 2 == 1), extra=["--num-workers", str(n)]),
                        hashseed=str(10 + n))
        case = dict(scn=scn, num_workers=n)
        viol = []
        if r["rc"] != 0:
            viol.append(core.violation(dict(what="workers_differ", how="exit_code", level="real_run"),
                                       "--num-workers %d exited with %r: %s" % (n, r["rc"], r["err"][-300:]),
                                       case))
        files = lay.read_files()
        bad = {}
        for u in lay.utts:
            if u not in files:
                bad[u] = "missing"
                continue
            t, err = load_bytes(files[u])
            rt, _ = load_bytes(ref["files"][u])
            if t is None or not same_tensor(t, rt):
                bad[u] = err or "tensor differs"
            elif ref["bytes_det"] and files[u] != ref["files"][u]:
                bad[u] = "bytes differ"
        if bad:
            viol.append(core.violation(
                dict(what="workers_differ", how="values", level="real_run"),
                "--num-workers %d: %r differ from the run with --num-workers 0" % (n, bad), case))
        return core.result(viol, obs=(n, len(files)), impl_calls=1, sample=case)
    finally:
        shutil.rmtree(d, ignore_errors=True)


# ------------------------------------------------------------------ repository-side mechanism

def _capture_dataset(args):
    """run the real tool in-process up to the point where it hands its dataset to the DataLoader"""
    import torch.utils.data as tud

    from pydrobert.speech import command_line as cl

    cap = {}

    class Capture:
        def __init__(self, dataset, *a, **kw):
            cap["ds"], cap["kw"] = dataset, kw

        def __iter__(self):
            return iter(())

    orig = tud.DataLoader
    tud.DataLoader = Capture
    try:
        rc = cl.signals_to_torch_feat_dir(list(args))
    finally:
        tud.DataLoader = orig
    if "ds" not in cap:
        raise core.HarnessError("the tool did not build a DataLoader (rc %r)" % (rc,))
    return cap["ds"]


def _item(ds, idx):
    out = ds[idx]
    return out[0], out[1]


def _mechanism(pt, seed):
    """pt = ("assign", n, assignment tuple) | ("resume", n, k)"""
    torch = _torch()
    from pydrobert.speech import command_line as cl

    kind, n = pt[0], pt[1]
    scn = "_mech%d" % n
    SCENARIOS[scn] = dict(computer=CFG_STFT, utts=[("m%d" % i, 30 + 7 * i) for i in range(n)], extra=[])
    d = tempfile.mkdtemp(prefix="verif-")
    viol, evals = [], 0
    try:
        os.makedirs(os.path.join(d, "r"))
        lay = Layout(os.path.join(d, "r"), scn, seed)
        torch.manual_seed(99)
        rc = cl.signals_to_torch_feat_dir(lay.args(manifest=False))   # real uninterrupted run, in-process
        if rc:
            raise core.HarnessError("in-process reference run returned %r" % (rc,))
        ref = {u: torch.load(lay.file(u)) for u in lay.utts}
        if kind == "assign":
            assign = pt[2]
            ds = _capture_dataset(lay.args(manifest=False))
            if len(ds) != n:
                raise core.HarnessError("dataset has %d items, expected %d" % (len(ds), n))
            workers = sorted(set(assign))
            blocks = [[i for i in range(n) if assign[i] == w] for w in workers]
            for orders in itertools.product(*[itertools.permutations(b) for b in blocks]):
                evals += 1
                for w, order in zip(workers, orders):
                    torch.manual_seed(4242 + 17 * w)       # each simulated worker: its own dirty RNG
                    torch.randn(w + 1)
                    for idx in order:
                        u, t = _item(ds, idx)
                        torch.randn(3)                      # other consumers of the worker's generator
                        if not same_tensor(t, ref[u]):
                            viol.append(core.violation(
                                dict(what="workers_differ", how="values", level="mechanism"),
                                "item %d (%s) computed by simulated worker %d in order %r of assignment %r "
                                "differs from the single-process run" % (idx, u, w, list(order), list(assign)),
                                dict(kind="assign", n=n, assign=list(assign))))
            obs = ("assign", n, len(workers))
        else:
            k = pt[2]
            with open(lay.manifest, "w") as f:
                for u in lay.utts[:k]:
                    f.write(u + "\n")
            ds = _capture_dataset(lay.args(manifest=True))
            evals = 1
            got = {}
            for idx in range(len(ds)):
                torch.manual_seed(777 + idx)
                u, t = _item(ds, idx)
                got[u] = t
            if sorted(got) != sorted(lay.utts[k:]):
                viol.append(core.violation(
                    dict(what="rewritten" if set(got) & set(lay.utts[:k]) else "resume_differs",
                         how="ids", level="mechanism"),
                    "manifest lists %r; the dataset of the resumed run covers %r, expected %r" % (
                        lay.utts[:k], sorted(got), lay.utts[k:]), dict(kind="resume", n=n, k=k)))
            bad = [u for u in got if u in ref and not same_tensor(got[u], ref[u])]
            if bad:
                viol.append(core.violation(
                    dict(what="resume_differs", how="values", level="mechanism", manifest_nonempty=k > 0),
                    "manifest lists the first %d of %d utterances; recomputed %r differ from the "
                    "uninterrupted run with the same --seed" % (k, n, bad), dict(kind="resume", n=n, k=k)))
            obs = ("resume", n, k, len(got))
        return core.result(viol, evals=evals, nontrivial=(n > 1), obs=obs, impl_calls=evals * n,
                           sample=dict(kind=kind, n=n, arg=list(pt[2]) if kind == "assign" else pt[2]))
    finally:
        shutil.rmtree(d, ignore_errors=True)
        SCENARIOS.pop(scn, None)


def _mechanism_replay(case, seed):
    if case["kind"] == "assign":
        return _mechanism(("assign", case["n"], tuple(case["assign"])), seed)
    return _mechanism(("resume", case["n"], case["k"]), seed)


# ------------------------------------------------------------------ manifests of a previous run

def _manifest_subsets(pt, seed, only=None):
    """pt = (id set name, map order as a tuple of indices into the id set, text of --seed).
    The real tool is run in-process (uninterrupted, no manifest = reference), then once per
    (subset of the ids listed in the manifest x order of the manifest lines): the listed ids' files
    hold a sentinel, the others do not exist.  Afterwards every listed file must be untouched (I4)
    and every other file must equal the reference run's (I3).
    only = [mask, reversed] restricts the inner enumeration (replay)."""
    torch = _torch()
    from pydrobert.speech import command_line as cl

    name, perm, seed_opt = pt[0], tuple(pt[1]), str(pt[2])
    naming = pt[3] if len(pt) > 3 else "default"
    ids = [ID_SETS[name][i] for i in perm]
    n = len(ids)
    scn = "_ms_%s_%s_%s_%s" % (name, "".join(map(str, perm)), seed_opt, naming)
    SCENARIOS[scn] = dict(computer=CFG_STFT, utts=[(u, 30 + 7 * i) for u, i in zip(ids, perm)],
                          extra=NAMINGS[naming](ID_SETS[name]), seed=seed_opt)
    d = tempfile.mkdtemp(prefix="verif-")
    viol, evals, nontriv, obs = [], 0, 0, set()
    try:
        os.makedirs(os.path.join(d, "r"))
        lay = Layout(os.path.join(d, "r"), scn, seed)
        torch.manual_seed(99)
        rc = cl.signals_to_torch_feat_dir(lay.args(manifest=False))
        if rc:
            raise core.HarnessError("in-process reference run returned %r" % (rc,))
        wrote = sorted(os.listdir(lay.out))
        expect = sorted(os.path.basename(lay.file(u)) for u in ids)
        if wrote != expect:
            # not a harness matter: an UNINTERRUPTED run must leave exactly one loadable file
            # <prefix><utt_id><suffix> per utterance (that is what a manifest line stands for)
            return core.result([core.violation(
                dict(what="uninterrupted_run_files", ids=name, naming=naming,
                     missing=bool(set(expect) - set(wrote)), unexpected=bool(set(wrote) - set(expect))),
                "ids %r (%s naming): an uninterrupted run wrote %r, one file per utterance would be %r" % (
                    ids, naming, wrote, expect),
                dict(kind="manifest_subsets", idset=name, perm=list(perm), seed_opt=seed_opt, naming=naming,
                     only=[0, False]))],
                obs="reference_files_wrong")
        ref = {u: torch.load(lay.file(u)) for u in lay.utts}
        for mask in range(2 ** n):
            listed = [u for i, u in enumerate(ids) if mask >> i & 1]
            for rev in ((False, True) if len(listed) > 1 else (False,)):
                if only is not None and [mask, rev] != list(only):
                    continue
                evals += 1
                nontriv += 1 if 0 < len(listed) < n else 0
                shutil.rmtree(lay.out)
                os.makedirs(lay.out)
                lines = listed[::-1] if rev else listed
                with open(lay.manifest, "w") as f:
                    f.write("".join(u + "\n" for u in lines))
                marks = {}
                for u in listed:
                    with open(lay.file(u), "wb") as f:
                        f.write(SENTINEL)
                    st = os.stat(lay.file(u))
                    marks[u] = (st.st_ino, st.st_mtime_ns, st.st_size)
                torch.manual_seed(1000 + mask)
                torch.randn(mask + 1)
                r = computers_call(cl.signals_to_torch_feat_dir, lay.args())
                case = dict(kind="manifest_subsets", idset=name, perm=list(perm), seed_opt=seed_opt,
                            naming=naming, only=[mask, rev])
                prefix = listed == ids[:len(listed)]
                tags = dict(level="tool_inprocess", manifest_is_map_prefix=prefix,
                            manifest_nonempty=bool(listed))
                if naming != "default":
                    tags["naming"] = naming
                if r[0] != "ok" or r[1]:
                    viol.append(core.violation(
                        dict(tags, what="resume_differs", how="exit_code"),
                        "map order %r, manifest %r: the tool %s" % (
                            ids, lines, "returned %r" % (r[1],) if r[0] == "ok" else "raised %s: %s" % r[1:]),
                        case))
                    continue
                for u in listed:
                    ok = os.path.exists(lay.file(u))
                    if ok:
                        st = os.stat(lay.file(u))
                        with open(lay.file(u), "rb") as f:
                            ok = f.read() == SENTINEL and \
                                (st.st_ino, st.st_mtime_ns, st.st_size) == marks[u]
                    if not ok:
                        viol.append(core.violation(
                            dict(tags, what="rewritten", how="rewritten"),
                            "I4: map order %r, manifest %r: the file of %r, which is listed in the "
                            "manifest, was written again or removed" % (ids, lines, u), case))
                bad = {}
                for u in ids:
                    if u in listed:
                        continue
                    if not os.path.exists(lay.file(u)):
                        bad[u] = "missing"
                        continue
                    with open(lay.file(u), "rb") as f:
                        t, err = load_bytes(f.read())
                    if t is None:
                        bad[u] = "not loadable (%s)" % err
                    elif not same_tensor(t, ref[u]):
                        bad[u] = "tensor differs"
                extra = sorted(set(os.listdir(lay.out)) - set(os.path.basename(lay.file(u)) for u in ids))
                if bad or extra:
                    how = "values" if bad and not extra and all(v == "tensor differs" for v in bad.values()) \
                        else "files"
                    rel = any(u != v and (u in v or v in u) for u in bad for v in listed)
                    viol.append(core.violation(
                        dict(tags, what="resume_differs", how=how, related_to_listed_id=rel),
                        "I3: map order %r, manifest lists %r: after the run %r (not listed) differ from the "
                        "uninterrupted run with the same --seed; unexpected files %r" % (
                            ids, lines, bad, extra), case))
                now = lay.manifest_ids()
                unknown = [u for u in now if u not in ids]
                if unknown or len(set(now)) != len(now):
                    viol.append(core.violation(
                        dict(tags, what="manifest_lists_incomplete",
                             how="unknown_id" if unknown else "duplicate_id"),
                        "map order %r, manifest before %r, after %r" % (ids, lines, now), case))
                # the end of the run is an interruption point too (nothing in flight): every utterance
                # whose file this run completed is listed (I2), next to the lines that were there
                unlisted = [u for u in ids if u not in listed and u not in bad and u not in now]
                if now[:len(lines)] != lines or unlisted:
                    viol.append(core.violation(
                        dict(tags, what="manifest_misses_completed"),
                        "I2: map order %r, options %r, manifest before the run %r; the run completed the "
                        "files of %r, and the manifest afterwards is %r" % (
                            ids, lay.extra, lines, [u for u in ids if u not in listed and u not in bad], now),
                        case))
                obs.add((len(listed), prefix))
        return core.result(viol, evals=evals, nontrivial_count=nontriv,
                           obs=[name, seed_opt, naming, sorted(obs)], impl_calls=evals + 1,
                           sample=dict(idset=name, map_order=ids, seed_opt=seed_opt, options=lay.extra, inner="every subset of the ids in the "
                                       "manifest x {map order, reversed} of its lines"))
    finally:
        shutil.rmtree(d, ignore_errors=True)
        SCENARIOS.pop(scn, None)


def computers_call(fn, *args):
    from .. import computers

    return computers.call(fn, *args)


# ------------------------------------------------------------------ manifests larger than any block size

LARGE_ID_WIDTH = 40                      # characters per id; a manifest line is 41 characters (odd: no
#                                          power of two is a multiple of it)
LARGE_BLOCKS = {"quick": (4096, 8192, 65536, 131072), "thorough": (4096, 8192, 65536, 131072, 262144)}
LARGE_SHAPES = ("prefix", "spread")
LARGE_FULL_SHIFTS = (0, 17)              # shape "full": the tool writes the large manifest itself
LARGE_SIGNALS = 7                        # distinct tiny signals (3 .. 9 samples), shared by the utterances
LARGE_TAIL = 3                           # utterances that are NOT listed in the manifest


def large_ids(n, shift, shape):
    """n ids of LARGE_ID_WIDTH characters; the first LISTED one is `shift` characters longer, which moves
    every later line of the manifest by `shift` characters relative to any block grid"""
    ids = ["spk%03d-large-manifest-utt%015d" % (i % 13, i) for i in range(n)]
    if any(len(u) != LARGE_ID_WIDTH for u in ids) or n < 8:
        raise core.HarnessError("large-manifest ids are not %d characters wide" % LARGE_ID_WIDTH)
    first = 0 if shape == "prefix" else 1
    ids[first] = ids[first] + "x" * shift
    return ids


def large_counts(tier, shift):
    """numbers K of listed ids: for every block size B the five values around the line that contains
    character B of the manifest (so that the manifest ends before / inside / after the line that straddles
    the boundary, and the boundary is in turn the last, an inner and no boundary of the manifest)"""
    w = LARGE_ID_WIDTH + 1
    out = set()
    for B in LARGE_BLOCKS[tier]:
        j = (B - shift) // w          # index of the line that holds character B (0-based)
        out.update(k for k in range(j - 1, j + 4) if k > 0)
    return sorted(out)


def large_unlisted(shape, n):
    """indices (into the map) of the LARGE_TAIL utterances that are not in the manifest"""
    if shape == "prefix":
        return list(range(n - LARGE_TAIL, n))        # what a kill leaves: the manifest is a prefix of the map
    return [0, n // 2, n - 1]                         # a manifest with holes: first, middle and last missing


def straddled_blocks(lines):
    """-> {id: largest power of two B (>= 1024) such that a multiple of B lies strictly inside the line of
    that id in the manifest text made of `lines`, or 0}"""
    out, pos = {}, 0
    for ln in lines:
        a, b = pos, pos + len(ln) + 1                # the line occupies characters [a, b), newline included
        best, B = 0, 1024
        while B < 2 * b:
            m = (a // B + 1) * B                     # first multiple of B above a
            if a < m < b:
                best = B
            B *= 2
        out[ln] = best
        pos = b
    return out


def _large_manifest(pt, seed, only=None):
    """pt = (shape, shift).  The real tool, in-process, no computer (raw samples), no pre-processing; for
    every K of large_counts: a map of K + 3 utterances, a manifest that lists K of them (all but the last
    three / all but the first, the middle and the last), a sentinel file for every listed id.  Afterwards:
    every listed file untouched (I4), exactly the three unlisted ids written and equal to their samples as
    a float32 column (I3), the manifest = its old lines + the three unlisted ids, each once (I1 / I2).
    shape "full": an uninterrupted run over the largest map (empty manifest) followed by the same command
    again (complete manifest, nothing to do).
    only = K (or "full") restricts the inner enumeration (replay)."""
    torch = _torch()
    from pydrobert.speech import command_line as cl

    shape, shift = pt[0], int(pt[1])
    tier = pt[2] if len(pt) > 2 else "quick"
    counts = large_counts(tier, shift)
    d = tempfile.mkdtemp(prefix="verif-")
    viol, evals, nontriv, obs = [], 0, 0, set()
    try:
        ind, out = os.path.join(d, "in"), os.path.join(d, "out")
        os.makedirs(ind)
        os.makedirs(out)
        mpath, mapf = os.path.join(d, "manifest"), os.path.join(d, "map")
        sigs = []
        for j in range(LARGE_SIGNALS):
            x = np.round(sig.signal(seed, 3 + j, offset=900 + j) * 1000.0)
            np.save(os.path.join(ind, "%d.npy" % j), x)
            sigs.append(torch.tensor(x, dtype=torch.float32).unsqueeze(-1))
        nmax = max(counts) + LARGE_TAIL
        ids_all = large_ids(nmax, shift, "prefix" if shape == "full" else shape)
        index = {u: i for i, u in enumerate(ids_all)}       # every map is a prefix of ids_all
        sentinels = {}                   # id -> (ino, mtime_ns, size) of its sentinel file

        def fpath(u):
            return out + os.sep + u + ".pt"

        def run(ids, listed_idx, case, tags):
            """one tool run on the map `ids` with the manifest listing ids[i], i in listed_idx (map order)"""
            listed = [ids[i] for i in listed_idx]
            lset = set(listed)
            unlisted = [u for u in ids if u not in lset]
            for nm in os.listdir(out):
                u = nm[:-3]
                if u not in lset:
                    os.remove(os.path.join(out, nm))
                    sentinels.pop(u, None)
            for u in listed:
                if u not in sentinels:
                    with open(fpath(u), "wb") as f:
                        f.write(SENTINEL)
                    st = os.stat(fpath(u))
                    sentinels[u] = (st.st_ino, st.st_mtime_ns, st.st_size)
            with open(mapf, "w") as f:
                f.write("".join("%s %s\n" % (u, os.path.join(ind, "%d.npy" % (i % LARGE_SIGNALS)))
                                for i, u in enumerate(ids)))
            with open(mpath, "w") as f:
                f.write("".join(u + "\n" for u in listed))
            torch.manual_seed(1000 + len(listed))
            r = computers_call(cl.signals_to_torch_feat_dir, [mapf, out, "--manifest", mpath])
            v = []
            if r[0] != "ok" or r[1]:
                v.append(core.violation(
                    dict(tags, what="resume_differs", how="exit_code"),
                    "map of %d utterances, manifest lists %d (%d characters): the tool %s" % (
                        len(ids), len(listed), sum(len(u) + 1 for u in listed),
                        "returned %r" % (r[1],) if r[0] == "ok" else "raised %s: %s" % r[1:]), case))
                sentinels.clear()
                return v
            # I4: listed files untouched
            # (inode, mtime, size) of EVERY listed file; the content of those whose manifest line holds a
            # multiple of 1024 characters, and of the first and the last listed id
            rewritten = []
            sb = straddled_blocks(listed)
            for j, u in enumerate(listed):
                ok = os.path.exists(fpath(u))
                if ok:
                    st = os.stat(fpath(u))
                    ok = (st.st_ino, st.st_mtime_ns, st.st_size) == sentinels[u]
                    if ok and (sb[u] or j == 0 or j == len(listed) - 1):
                        with open(fpath(u), "rb") as f:
                            ok = f.read() == SENTINEL
                if not ok:
                    rewritten.append(u)
                    sentinels.pop(u, None)
            for B in sorted(set(sb[u] for u in rewritten)):
                us = [u for u in rewritten if sb[u] == B]
                v.append(core.violation(
                    dict(tags, what="rewritten", how="rewritten", line_straddles_multiple_of=B),
                    "I4: map of %d utterances, manifest lists %d of them (%d characters): the files of %d "
                    "listed ids were written again or removed, e.g. %r (manifest line %d, characters %d..%d)" % (
                        len(ids), len(listed), sum(len(u) + 1 for u in listed), len(us), us[0],
                        listed.index(us[0]), sum(len(x) + 1 for x in listed[:listed.index(us[0])]),
                        sum(len(x) + 1 for x in listed[:listed.index(us[0]) + 1])), case))
            # I3: exactly the unlisted ids are written, with the documented content
            bad = {}
            for u in unlisted:
                if not os.path.exists(fpath(u)):
                    bad[u] = "missing"
                    continue
                with open(fpath(u), "rb") as f:
                    t, err = load_bytes(f.read())
                want = sigs[index[u] % LARGE_SIGNALS]
                if t is None:
                    bad[u] = "not loadable (%s)" % err
                elif not same_tensor(t, want):
                    bad[u] = "tensor differs"
            extra = sorted(set(os.listdir(out)) - set(u + ".pt" for u in ids))
            if bad or extra:
                how = "values" if bad and not extra and all(x == "tensor differs" for x in bad.values()) \
                    else "files"
                v.append(core.violation(
                    dict(tags, what="resume_differs", how=how),
                    "I3: map of %d utterances, manifest lists %d: %d unlisted utterances are wrong after the "
                    "run, e.g. %r; unexpected files %r" % (len(ids), len(listed), len(bad),
                                                           sorted(bad.items())[:2], extra[:3]), case))
            # manifest afterwards: the old lines, then every id this run completed, each once
            with open(mpath) as f:
                now = [ln.rstrip("\n") for ln in f]
            known = set(ids)
            unknown = [u for u in now if u not in known]
            if unknown or len(set(now)) != len(now):
                dup = sorted(set(u for u in now[len(listed):] if u in lset))
                v.append(core.violation(
                    dict(tags, what="manifest_lists_incomplete",
                         how="unknown_id" if unknown else "duplicate_id"),
                    "manifest before the run: %d lines, after: %d lines; %s" % (
                        len(listed), len(now), "lines that are no ids: %r" % unknown[:3] if unknown else
                        "%d ids are listed twice, e.g. %r" % (len(now) - len(set(now)), dup[:2])), case))
            done = [u for u in unlisted if u not in bad]
            if now[:len(listed)] != listed or [u for u in done if u not in now[len(listed):]]:
                v.append(core.violation(
                    dict(tags, what="manifest_misses_completed"),
                    "I2: manifest before the run: %d lines; the run completed %r; afterwards the manifest has %d "
                    "lines, old lines intact: %s, new lines %r" % (
                        len(listed), done[:4], len(now), now[:len(listed)] == listed, now[len(listed):][:5]),
                    case))
            return v

        base = dict(level="tool_inprocess", manifest="large")
        if shape == "full":
            # uninterrupted run over the largest map, then the same command again
            case = dict(kind="large_manifest", shape=shape, shift=shift, tier=tier, only="full")
            v = run(ids_all, [], case, dict(base, manifest_nonempty=False, manifest_is_map_prefix=True))
            evals += 1
            if not v:
                # its own manifest now lists everything: freeze what it wrote, run again
                for u in ids_all:
                    st = os.stat(fpath(u))
                    sentinels[u] = (st.st_ino, st.st_mtime_ns, st.st_size)
                before = {u: sentinels[u] for u in ids_all}
                r = computers_call(cl.signals_to_torch_feat_dir, [mapf, out, "--manifest", mpath])
                evals += 1
                nontriv += 1
                tags = dict(base, manifest_nonempty=True, manifest_is_map_prefix=True)
                if r[0] != "ok" or r[1]:
                    v.append(core.violation(dict(tags, what="resume_differs", how="exit_code"),
                                            "second run over a complete manifest of %d lines: %r" % (nmax, r[:2]),
                                            case))
                else:
                    changed = [u for u in ids_all if not os.path.exists(fpath(u)) or
                               (lambda st: (st.st_ino, st.st_mtime_ns, st.st_size))(os.stat(fpath(u))) != before[u]]
                    sb = straddled_blocks(ids_all) if changed else {}
                    for B in sorted(set(sb[u] for u in changed)):
                        us = [u for u in changed if sb[u] == B]
                        v.append(core.violation(
                            dict(tags, what="rewritten", how="rewritten", line_straddles_multiple_of=B),
                            "I4: a run of %d utterances wrote a manifest of %d characters; the same command "
                            "again wrote the files of %d listed ids again, e.g. %r" % (
                                nmax, sum(len(u) + 1 for u in ids_all), len(us), us[0]), case))
                    with open(mpath) as f:
                        now = [ln.rstrip("\n") for ln in f]
                    if now != ids_all:
                        v.append(core.violation(
                            dict(tags, what="manifest_lists_incomplete",
                                 how="duplicate_id" if len(set(now)) != len(now) else "unknown_id"),
                            "the complete manifest (%d lines) has %d lines (%d distinct) after a second run "
                            "that had nothing to do" % (nmax, len(now), len(set(now))), case))
                sentinels.clear()
            viol += v
            obs.add("full:%d" % nmax)
        for k in counts:
            if shape == "full" or (only is not None and only != k):
                continue
            n = k + LARGE_TAIL
            ids = ids_all[:n]
            un = set(large_unlisted(shape, n))
            listed_idx = [i for i in range(n) if i not in un]
            case = dict(kind="large_manifest", shape=shape, shift=shift, tier=tier, only=k)
            tags = dict(base, manifest_nonempty=True, manifest_is_map_prefix=(shape == "prefix"))
            viol += run(ids, listed_idx, case, tags)
            evals += 1
            nontriv += 1
            size = sum(len(ids[i]) + 1 for i in listed_idx)
            obs.add("crosses:%d" % max([0] + [B for B in LARGE_BLOCKS[tier] if B < size]))
        # one violation per signature and point is enough
        seen, uniq = set(), []
        for v in viol:
            key = json.dumps(v["tags"], sort_keys=True)
            if key not in seen:
                uniq.append(v)
            seen.add(key)
        return core.result(uniq, evals=evals, nontrivial_count=nontriv, obs=[shape] + sorted(obs),
                           impl_calls=evals,
                           sample=dict(shape=shape, shift=shift, listed_counts=counts,
                                       manifest_characters=[k * (LARGE_ID_WIDTH + 1) + shift for k in counts]))
    finally:
        shutil.rmtree(d, ignore_errors=True)


# ------------------------------------------------------------------ python-level byte prefixes

def _prefix_point(pt, ctx, seed):
    """fallback injector only: every byte-prefix of the in-flight file (chunk of prefix lengths);
    the resume run is made in-process"""
    torch = _torch()
    from pydrobert.speech import command_line as cl

    scn, lo, hi = pt
    ref = ctx["refs"][scn]
    viol, evals = [], 0
    d = tempfile.mkdtemp(prefix="verif-")
    try:
        os.makedirs(os.path.join(d, "p"))
        lay = Layout(os.path.join(d, "p"), scn, seed)
        done, u1 = lay.utts[:-1], lay.utts[-1]
        for nbytes in range(lo, hi):
            shutil.rmtree(lay.out, ignore_errors=True)
            os.makedirs(lay.out)
            for u0 in done:
                with open(lay.file(u0), "wb") as f:
                    f.write(ref["files"][u0])
            with open(lay.file(u1), "wb") as f:
                f.write(ref["files"][u1][:nbytes])
            with open(lay.manifest, "w") as f:
                f.write("".join(u0 + "\n" for u0 in done))
            st = inspect_state(lay, ref)
            case = dict(scn=scn, lo=nbytes, hi=nbytes + 1)
            tags = dict(signal="KILL", order=1)
            viol += check_after_kill(lay, ref, st, u1, tags, case)
            marks = mark(lay, st)
            torch.manual_seed(5)
            rc = cl.signals_to_torch_feat_dir(lay.args())
            viol += check_after_resume(lay, ref, st, marks, dict(rc=rc or 0, timed_out=False, err=""),
                                       tags, case)
            evals += 1
        return core.result(viol, evals=evals, nontrivial=True, obs=(lo // 256,), impl_calls=evals)
    finally:
        shutil.rmtree(d, ignore_errors=True)


# ------------------------------------------------------------------

class _LazyRefs(dict):
    """scenario -> build_reference(scenario), built when first asked for"""

    def __init__(self, seed, inj):
        dict.__init__(self)
        self.seed, self.inj = seed, inj

    def __missing__(self, scn):
        self[scn] = build_reference(scn, self.seed, self.inj)
        return self[scn]


def _build_references(scns, seed, inj):
    import threading

    refs, errs = {}, []

    def one(scn):
        try:
            refs[scn] = build_reference(scn, seed, inj)
        except Exception as e:  # re-raised in the caller's thread
            errs.append(e)

    ts = [threading.Thread(target=one, args=(s,)) for s in scns]
    for t in ts:
        t.start()
    for t in ts:
        t.join()
    if errs:
        raise errs[0]
    return refs


def _choose_injector():
    forced = os.environ.get("VERIF_C10_INJECTOR")
    if forced in ("strace", "python"):
        return Injector(forced), dict(ok=forced == "strace", detail="forced by VERIF_C10_INJECTOR")
    pr = crash.probe()
    return Injector("strace" if pr["ok"] else "python"), pr


def subchecks(tier, seed, only=None):
    quick = tier == "quick"
    inj, pr = _choose_injector()
    note = ("injector=strace (probe: %s)" % pr["detail"]) if inj.kind == "strace" else \
        ("injector=PYTHON-LEVEL FALLBACK (wrappers around torch.save / manifest print), because the "
         "strace probe failed: %s" % pr["detail"])
    if note not in ASSUMPTIONS:
        ASSUMPTIONS.append(note)

    want = lambda name: only is None or only == name  # noqa: E731
    first = ["stft3", "stft3p"] if quick else ["stft4", "stft3p", "si5", "raw3w"]
    second = [] if quick else ["stft4"]
    wscn = "stft3" if quick else "stft4"
    need = set()
    if want("kill_resume"):
        need.update(first)
    if want("kill_resume_2nd"):
        need.update(second)
    if want("workers"):
        need.add(wscn)
    if want("byte_prefixes") and inj.kind == "python":
        need.add(first[0])
    replaying = only is not None      # ./check --replay: the points are not enumerated, only one case is run
    if replaying:
        refs = _LazyRefs(seed, inj)   # the reference runs of the case's scenario only, when it asks for them
        if not (only == "byte_prefixes" and inj.kind == "python"):
            need = set()
    else:
        refs = _build_references(sorted(need), seed, inj)
    ctx = dict(refs=refs, inj=inj)

    sigs = ["KILL", "INT"]
    kpts, kaxes = [], {}
    if want("kill_resume") and not replaying:
        for scn in first:
            pts = inj.points(refs[scn]["events"])
            kaxes[scn] = dict(
                utterances=SCENARIOS[scn]["utts"], options=SCENARIOS[scn]["extra"],
                events=["%s %s" % (c, p) for c, p in refs[scn]["events"]],
                kill_points=["%s#%d" % (c, k) for c, k, _ in pts],
                ignored_readonly=sorted(set(c for c, _ in refs[scn]["events"]) & crash.READONLY)
                if inj.kind == "strace" else [],
                torch_save_byte_deterministic=refs[scn]["bytes_det"])
            for sg in sigs:
                for c, k, _i in pts:
                    kpts.append(dict(scn=scn, name=c, k=k, sig=sg))
    k2pts = []
    if want("kill_resume_2nd") and not replaying:
        for scn in second:
            for sg in sigs:
                for c, k, _i in inj.points(refs[scn]["events"]):
                    k2pts.append(dict(scn=scn, name=c, k=k, sig=sg, second_order=True))
    wpts = [(wscn, n) for n in (0, 1, 2, 3)]
    mpts = []
    for n in (1, 2, 3, 4):
        for assign in itertools.product(range(3), repeat=n):
            mpts.append(("assign", n, assign))
        for k in range(n + 1):
            mpts.append(("resume", n, k))

    scs = [
        core.SubCheck(
            "kill_resume", kpts, lambda p: _kill_point(p, ctx, seed),
            "every state-changing syscall on the output directory / feature files / manifest of the "
            "real process x {SIGKILL, SIGINT}: I1, I2 after the kill, then the same command again: I3, "
            "I4; non-trivial = the kill fired and left at least one file incomplete or missing; " + note,
            axes=dict(injector=inj.kind, probe=pr, signals=sigs, scenarios=kaxes),
            kind="crash_points", chunk=1),
    ]
    if k2pts or not quick:
        scs.append(core.SubCheck(
            "kill_resume_2nd", k2pts, lambda p: _kill_point(p, ctx, seed),
            "second order: kill at K1, then the resume run is itself killed at every state-changing "
            "syscall K2 (same signal), then resumed: I1, I2 after the second kill, I3, I4 at the end",
            axes=dict(injector=inj.kind, scenarios=second), kind="crash_points", chunk=1))
    scs.append(core.SubCheck(
        "workers", wpts, lambda p: _workers_point(p, ctx, seed),
        "real runs with --num-workers 0,1,2,3 (with and without --manifest) give the directory of the "
        "single-process run; one OS schedule each (DESIGN section 4)",
        axes=dict(num_workers=[0, 1, 2, 3], scenario=wscn), kind="real_runs", chunk=1,
        replay=lambda case: _workers_point((case["scn"], case["num_workers"]), ctx, seed)))
    spts = [(name, perm, so, nm) for name in ID_SETS for perm in itertools.permutations(range(4))
            for so in SEED_OPTS for nm in NAMINGS]
    scs.append(core.SubCheck(
        "manifest_subsets", spts, lambda p: _manifest_subsets(p, seed),
        "id set x EVERY order of its 4 ids in the map x --seed {0, 3} x file naming {default, --file-prefix p_ "
        "--file-suffix .feat, --file-prefix <the first id of the set>}; inner: EVERY subset of the ids already listed in "
        "the manifest (files of listed ids hold a sentinel) x {lines in map order, reversed}; the real "
        "tool, in-process, --seed + dither: listed files untouched (I4), every other file equals the "
        "uninterrupted run (I3), no unknown / duplicate manifest line, and at the end of the run the manifest "
        "holds the lines it had plus every id whose file the run completed (I2, nothing in flight); non-trivial = the manifest is "
        "neither empty nor complete",
        axes=dict(id_sets=ID_SETS, map_orders="all 24 permutations", seed=list(SEED_OPTS),
                  naming={k: v(["<first id>"]) for k, v in NAMINGS.items()},
                  manifest="all 16 subsets",
                  manifest_line_order=["map order", "reversed"]),
        replay=lambda case: _manifest_subsets((case["idset"], tuple(case["perm"]), case["seed_opt"],
                                               case.get("naming", "default")), seed, only=case["only"]),
        kind="manifests"))
    lpts = [("full", shift, tier) for shift in LARGE_FULL_SHIFTS]      # the longest points first
    lpts += [(shape, shift, tier) for shape in LARGE_SHAPES for shift in range(LARGE_ID_WIDTH + 1)]
    scs.append(core.SubCheck(
        "large_manifest", lpts, lambda p: _large_manifest(p, seed),
        "manifests that are larger than any block a reader or writer may use: shape {the manifest is a prefix "
        "of the map (what a kill leaves), the manifest has holes (first, middle and last utterance missing)} x "
        "shift 0..%d (the first manifest line is that many characters longer, so that over all shifts a "
        "multiple of every block size falls on EVERY character of a line, the newline included); inner: "
        "every number K of listed ids within -1..+3 lines of the line that holds character B of the manifest, "
        "B in %r (%d-character ids, map of K + 3 utterances, raw samples, no computer); shape 'full' (shifts "
        "%r): the largest map uninterrupted (the tool writes the large manifest itself), then the same "
        "command again. The real tool, in-process: every listed file keeps its inode / mtime / size, and its sentinel "
        "content where its manifest line holds a multiple of 1024 characters or is the first or last (I4), exactly the unlisted "
        "ids are written and hold their samples (I3), the manifest afterwards is its old lines plus the "
        "unlisted ids, each once (I1, I2); non-trivial = a run with a non-empty manifest" % (
            LARGE_ID_WIDTH, LARGE_BLOCKS[tier], LARGE_ID_WIDTH, LARGE_FULL_SHIFTS),
        axes=dict(shape=list(LARGE_SHAPES) + ["full"], shift="0..%d" % LARGE_ID_WIDTH, blocks=list(LARGE_BLOCKS[tier]),
                  id_width=LARGE_ID_WIDTH, unlisted=LARGE_TAIL,
                  listed_counts_at_shift_0=large_counts(tier, 0)),
        replay=lambda case: _large_manifest((case["shape"], case["shift"], case.get("tier", "quick")), seed,
                                            only=case["only"]),
        kind="manifests"))
    scs.append(core.SubCheck(
        "mechanism", mpts, lambda p: _mechanism(p, seed),
        "the dataset object built by the real tool (captured at the DataLoader call): every assignment "
        "of n<=4 items to <=3 simulated workers x every per-worker order, each worker with its own dirty "
        "torch RNG state, and every manifest prefix k=0..n: each item's tensor equals the uninterrupted "
        "single-process run; non-trivial = n > 1",
        axes=dict(n=[1, 2, 3, 4], workers=3, manifest_prefix="0..n"),
        replay=lambda case: _mechanism_replay(case, seed), kind="assignments"))
    if inj.kind == "python" and want("byte_prefixes"):
        scn = first[0]
        size = len(refs[scn]["files"][SCENARIOS[scn]["utts"][-1][0]])
        step = 64
        ppts = [(scn, lo, min(size, lo + step)) for lo in range(0, size, step)]
        scs.append(core.SubCheck(
            "byte_prefixes", ppts, lambda p: _prefix_point(p, ctx, seed),
            "fallback injector: every byte-prefix of the in-flight (last) feature file with all earlier "
            "utterances listed in the manifest; I1, I2, in-process resume, I3, I4",
            axes=dict(file_size=size), kind="crash_points",
            replay=lambda case: _prefix_point((case["scn"], case["lo"], case["hi"]), ctx, seed)))
    return scs
