"""C02 - STFT coefficients equal their documented definition (engine L).

Every point of a finite lattice of configurations x signal lengths is computed
by the real compute_full and by mc/refs/stft.py (full complex DFT, explicit
reflection, responses rebuilt by the docstring recipe).
"""
import itertools

import numpy as np

from .. import cfg, computers, core, sig
from ..refs import stft as ref

LEVEL = "exploration"
ASSUMPTIONS = [
    "numpy.fft.fft is trusted; sample values are one generic signal per length plus an "
    "all-zero and a tiny-amplitude signal (log floor)",
    "the bank's get_truncated_response is taken as given (its agreement with "
    "get_frequency_response is C06)",
]

STYLES = (("causal", False), ("centered", False), ("centered", True))
# also: kaldi_shift given together with the causal style (documented to affect centered frames only) and
# frame_style left at None (resolved from bank.is_zero_phase, which also selects the default window)
EXTRA_STYLES = (("causal", True), (None, False), (None, True))
FLAGS = list(itertools.product((True, False), (False, True), (False, True)))  # log, power, energy


VARIANTS = ("generic", "zeros", "loud_then_quiet", "outlier", "tiny", "strided", "reversed_view",
            "bigendian", "via_deepcopy", "via_pickle", "second_call", "generic_fpstrict", "zeros_fpstrict",
            "loud_then_quiet_fpstrict", "spelled_int", "spelled_npbool")


def RTOL(bank):
    """round-off margin.  Real (Hermitian) banks are summed over the half spectrum and doubled, so a
    filter value at the Nyquist / DC bin counts twice instead of once; Fbank's square-rooted triangle
    is 0 there only up to sqrt(rounding) ~ 3e-9 (found by the thorough tier at 16 kHz / 40 filters:
    relative differences of 4e-9).  5e-8 covers that; anything a defect produces is >= 1e-5."""
    return 5e-8 if bank.is_real else 1e-9


FLOOR_VARIANTS = ("tiny+floor_1e-2", "zeros+floor_1e-9")
FLOORS = {"tiny+floor_1e-2": 1e-2, "zeros+floor_1e-9": 1e-9}


def _signal(seed, N, variant):
    """data alphabet: generic noise; all zeros (log floor); a loud passage followed by a quiet one
    and a single huge early sample (value-dependent shortcuts such as running sums lose precision
    there); tiny amplitudes around the log floor"""
    x = sig.signal(seed, N)
    variant = variant.split("+")[0].replace("_fpstrict", "")
    if variant.startswith("spelled_"):
        variant = "generic"
    if variant == "zeros":
        return np.zeros(N)
    if variant == "loud_then_quiet":
        x = x.copy()
        x[: N // 3] *= 1e4
        x[N // 3:] *= 1e-2
    elif variant == "outlier":
        x = x.copy()
        if N > 1:
            x[1] = 1e8
    elif variant == "tiny":
        x = x * 1e-3
    elif variant == "strided":
        big = np.full(2 * N + 1, 777.0)       # same samples as a non-contiguous view
        big[1::2] = x
        x = big[1::2]
    elif variant == "reversed_view":
        x = np.array(x[::-1], copy=True)[::-1]  # negative stride
    elif variant == "bigendian":
        x = x.astype(">f8")  # same values, non-native byte order (as read from SPHERE/AIFF/network order)
    return x


def _route(comp, variant, seed):
    """the computer object actually called: the constructed one, a copy.deepcopy of it, a pickle round
    trip of it, or the same object after an earlier compute_full on another signal"""
    variant = variant.split("+")[0]
    if variant == "via_deepcopy":
        import copy
        return copy.deepcopy(comp)
    if variant == "via_pickle":
        import pickle
        return pickle.loads(pickle.dumps(comp))
    if variant == "second_call":
        computers.call(comp.compute_full, sig.signal(seed + 1, 2 * comp.frame_length + 3))
    return comp


def _eval(pt, seed):
    bankname, L, S, pad, (style, kaldi), window = pt
    from pydrobert.speech import config

    bank = cfg.make_bank(bankname)
    viol = []
    evals = nontriv = 0
    obs = set()
    conj_used = False
    for use_log, use_power, energy in FLAGS:
        c = dict(kind="stft", bank=bankname, L=L, S=S, style=style, kaldi=kaldi, window=window,
                 pad=pad, log=use_log, power=use_power, energy=energy)
        try:
            comp = cfg.make_computer(c)
        except AssertionError as e:
            if "frame" in str(e):
                raise core.HarnessError(str(e))
            return core.result(nontrivial=False, obs="unconstructible:" + type(e).__name__,
                               skipped=True)
        except Exception as e:
            return core.result(nontrivial=False, obs="unconstructible:" + type(e).__name__,
                               skipped=True)
        D = comp._dft_size if hasattr(comp, "_dft_size") else None
        Dexp = int(2 ** np.ceil(np.log2(L))) if pad else L
        # documented resolution of frame_style=None: centered iff the bank is zero phase
        rstyle = style if style is not None else ("centered" if bank.is_zero_phase else "causal")
        win = cfg.make_window(window)
        if win is None:
            from pydrobert.speech import filters
            win = filters.GammaWindow() if rstyle == "causal" else filters.HannWindow()
        w = win.get_impulse_response(L)
        tags = dict(bank=type(bank).__name__, real=bool(bank.is_real), style=style, kaldi=kaldi,
                    Dmod4=Dexp % 4, pad=pad, S_gt_L=bool(S > L))
        for N in sorted(set([0, L // 2, L // 2 + 1, L, 2 * L + 1, 3 * L + S] + ([S - S // 2 - 1, S - S // 2, S, 2 * S] if S > L else []))):
            variants = VARIANTS if N == 3 * L + S else VARIANTS[:7] if N == L else ("generic",)
            if use_log and N == L:
                variants = variants + FLOOR_VARIANTS
            for variant in variants:
                x = _signal(seed, N, variant)
                evals += 1
                floor = FLOORS.get(variant)
                old_floor = config.LOG_FLOOR_VALUE
                try:
                    if floor is not None:
                        # the documented package constant changes AFTER the computer was built
                        config.LOG_FLOOR_VALUE = floor
                    if variant.startswith("spelled_"):
                        # the same computer with its flags given as 0/1 or numpy bools
                        rc = computers.call(cfg.make_computer, dict(c, spelling=variant[8:]))
                    else:
                        rc = computers.call(_route, comp, variant, seed)
                    if rc[0] != "ok":
                        viol.append(core.violation(dict(tags, what="exception", exc=rc[1], route=variant),
                                                   "%s of the computer raised %s: %s" % (variant, rc[1], rc[2]),
                                                   dict(config=c, N=N, signal=variant)))
                        continue
                    # *_fpstrict: the caller has numpy's floating-point error state set to 'raise'
                    # (np.seterr(all="raise") is a common debugging setting); a valid signal still
                    # yields its frames
                    with np.errstate(all="raise" if variant.endswith("_fpstrict") else None):
                        r = computers.call(rc[1].compute_full, sig.rov(x))
                finally:
                    config.LOG_FLOOR_VALUE = old_floor
                case = dict(config=c, N=N, signal=variant)
                try:
                    want = ref.compute_full(x, bank, L, S, Dexp, w, rstyle, kaldi, use_log,
                                            use_power, energy,
                                            floor if floor is not None else config.LOG_FLOOR_VALUE)
                except ref.OutOfRecipe as e:
                    obs.add("out_of_recipe")
                    continue
                if r[0] != "ok":
                    viol.append(core.violation(dict(tags, what="exception", exc=r[1]),
                                               "compute_full(N=%d) raised %s: %s" % (N, r[1], r[2]), case))
                    continue
                got = r[1]
                if got.shape != want.shape:
                    viol.append(core.violation(
                        dict(tags, what="shape"),
                        "N=%d L=%d S=%d: shape %r, documented %r" % (N, L, S, got.shape, want.shape), case))
                    continue
                if want.shape[0]:
                    nontriv += 1
                # round-off of an FFT is relative to the LARGEST term of a frame: with a dynamic
                # range of 1e8..1e12 inside one frame small coefficients carry ~1e-8 relative noise
                tol = 1e-5 if variant.split("+")[0].replace("_fpstrict", "") in ("loud_then_quiet", "outlier") else RTOL(bank)
                if use_log:
                    ok = np.all(np.abs(got - want) <= tol + tol * np.abs(want))
                else:
                    ok = np.all(np.abs(got - want) <= tol * np.abs(want) + (
                        1e-13 if tol == 1e-9 else tol * 1e-3 * np.max(np.abs(want), initial=0.0)))
                if not ok:
                    bad = np.argwhere(~(np.abs(got - want) <= tol + tol * np.abs(want)))
                    col = int(bad[0][1]) if len(bad) else -1
                    is_energy = bool(energy and col == 0)
                    viol.append(core.violation(
                        dict(tags, what="values", energy_column=is_energy),
                        "N=%d L=%d S=%d D=%d log=%s power=%s: max|diff|=%.3g at frame/coeff %s "
                        "(got %r, definition %r)" % (
                            N, L, S, Dexp, use_log, use_power, float(np.max(np.abs(got - want))),
                            bad[0].tolist() if len(bad) else None,
                            float(got[tuple(bad[0])]) if len(bad) else None,
                            float(want[tuple(bad[0])]) if len(bad) else None), case))
                obs.add((got.shape[0] > 0, use_log, use_power, energy))
    return core.result(viol, evals=evals, nontrivial_count=nontriv, obs=sorted(map(str, obs)),
                       sample=dict(bank=bankname, L=L, S=S, pad=pad, style=style, kaldi=kaldi,
                                   window=window, inner="8 flag combinations x 6 lengths"))


def _replay(case, seed):
    from pydrobert.speech import config

    c = case["config"]
    comp = cfg.make_computer(c)
    bank = cfg.make_bank(c["bank"])
    L, S = c["L"], c["S"]
    D = int(2 ** np.ceil(np.log2(L))) if c["pad"] else L
    rstyle = c["style"] if c["style"] is not None else ("centered" if bank.is_zero_phase else "causal")
    win = cfg.make_window(c["window"])
    if win is None:
        from pydrobert.speech import filters
        win = filters.GammaWindow() if rstyle == "causal" else filters.HannWindow()
    N = case["N"]
    x = _signal(seed, N, case["signal"])
    floor = FLOORS.get(case["signal"])
    want = ref.compute_full(x, bank, L, S, D, win.get_impulse_response(L), rstyle, c["kaldi"],
                            c["log"], c["power"], c["energy"],
                            floor if floor is not None else config.LOG_FLOOR_VALUE)
    old_floor = config.LOG_FLOOR_VALUE
    try:
        if floor is not None:
            config.LOG_FLOOR_VALUE = floor
        if case["signal"].startswith("spelled_"):
            comp = cfg.make_computer(dict(c, spelling=case["signal"][8:]))
        with np.errstate(all="raise" if case["signal"].endswith("_fpstrict") else None):
            r = computers.call(lambda: _route(comp, case["signal"], seed).compute_full(sig.rov(x)))
    finally:
        config.LOG_FLOOR_VALUE = old_floor
    tags = dict(bank=type(bank).__name__, real=bool(bank.is_real), style=c["style"],
                kaldi=c["kaldi"], Dmod4=D % 4, pad=c["pad"], S_gt_L=bool(S > L))
    if r[0] != "ok":
        return core.result([core.violation(dict(tags, what="exception", exc=r[1]), str(r), case)])
    got = r[1]
    if got.shape != want.shape:
        return core.result([core.violation(dict(tags, what="shape"), "%r vs %r" % (got.shape, want.shape), case)])
    tol = 1e-5 if case["signal"].split("+")[0].replace("_fpstrict", "") in ("loud_then_quiet", "outlier") else RTOL(bank)
    if not np.all(np.abs(got - want) <= tol + tol * np.abs(want)):
        bad = np.argwhere(~(np.abs(got - want) <= tol + tol * np.abs(want)))
        return core.result([core.violation(
            dict(tags, what="values", energy_column=bool(c["energy"] and bad[0][1] == 0)),
            "got\n%r\ndefinition\n%r" % (got, want), case)])
    return core.result([])


def _shared_bank(pt, seed):
    """construction histories on ONE bank object: several computers (different frame lengths, padded
    and unpadded DFT sizes, styles) are built in sequence on the same bank instance; every one of
    them - checked after ALL have been built - must still agree with the definition (whose responses
    come from a fresh bank).  A cache on the bank with an incomplete key shows up here."""
    from pydrobert.speech import config

    bankname, seq = pt
    shared = cfg.make_bank(bankname)
    comps = []
    for (L, S, pad, style, kaldi) in seq:
        c = dict(kind="stft", bank=bankname, bank_obj=shared, L=L, S=S, style=style, kaldi=kaldi,
                 window="hamming", pad=pad, log=True, power=False, energy=True)
        r = computers.call(cfg.make_computer, c)
        if r[0] != "ok":
            return core.result(nontrivial=False, obs="unconstructible:" + r[1], skipped=True)
        comps.append((r[1], L, S, pad, style, kaldi))
    viol = []
    evals = 0
    for idx, (comp, L, S, pad, style, kaldi) in enumerate(comps):
        fresh_bank = cfg.make_bank(bankname)
        D = int(2 ** np.ceil(np.log2(L))) if pad else L
        w = cfg.make_window("hamming").get_impulse_response(L)
        N = 2 * L + 1
        x = sig.signal(seed, N)
        evals += 1
        try:
            want = ref.compute_full(x, fresh_bank, L, S, D, w, style, kaldi, True, False, True,
                                    config.LOG_FLOOR_VALUE)
        except ref.OutOfRecipe:
            continue
        r = computers.call(comp.compute_full, sig.ro(x))
        case = dict(bank=bankname, seq=[list(q) for q in seq], index=idx)
        tags = dict(what="shared_bank", position=("first" if idx == 0 else "later"),
                    same_L_other_pad=bool(any(q[0] == L and q[2] != pad for q in seq)))
        if r[0] != "ok":
            viol.append(core.violation(dict(tags, aspect="exception", exc=r[1]),
                                       "computer #%d of %r on a shared bank raised %s: %s" % (
                                           idx, seq, r[1], r[2]), case))
        elif r[1].shape != want.shape or not np.all(np.abs(r[1] - want) <= RTOL(fresh_bank) + RTOL(fresh_bank) * np.abs(want)):
            viol.append(core.violation(
                dict(tags, aspect="values"),
                "computers built in sequence %r on ONE %s bank object: computer #%d differs from the "
                "definition (max|diff| %s)" % (seq, bankname, idx,
                                                float(np.max(np.abs(r[1] - want))) if r[1].shape == want.shape else "shape"),
                case))
    return core.result(viol, evals=evals, nontrivial_count=evals, obs=[bankname, len(viol) == 0],
                       sample=dict(bank=bankname, sequence=[list(q) for q in seq]))


def _shared_points(tier):
    geo = [(6, 2, True, "centered", False), (6, 2, False, "centered", False),
           (5, 2, True, "causal", False), (5, 2, False, "centered", True),
           (8, 3, True, "centered", True), (6, 3, False, "causal", False)]
    if tier == "thorough":
        geo += [(7, 2, True, "centered", False), (7, 2, False, "causal", False), (12, 5, False, "centered", False)]
    pts = []
    for b in ("tri", "gabor", "gammatone", "tri_an", "fbank"):
        for k in (2, 3) if tier == "quick" else (2, 3, 4):
            for seq in itertools.permutations(geo, k) if k == 2 else itertools.combinations(geo, k):
                pts.append((b, list(seq)))
    return pts


def _default_len(pt):
    """frame_length_ms=None: every filter keeps at least one non-zero DFT bin"""
    from pydrobert.speech import compute

    b, pad = pt
    try:
        bank = cfg.make_bank(b)
    except Exception as e:
        return core.result(nontrivial=False, obs="unconstructible:" + type(e).__name__, skipped=True)
    r = computers.call(lambda: compute.STFTFrameComputer(bank, pad_to_nearest_power_of_two=pad))
    if r[0] != "ok":
        return core.result([core.violation(dict(what="default_length_exception", exc=r[1]),
                                           "STFTFrameComputer(bank) raised %s: %s" % (r[1], r[2]))])
    comp = r[1]
    D = comp._dft_size if hasattr(comp, "_dft_size") else comp.frame_length
    viol = []
    for i in range(bank.num_filts):
        _, t = bank.get_truncated_response(i, D)
        if not np.any(np.abs(t) > 0):
            viol.append(core.violation(
                dict(what="empty_filter", bank=type(bank).__name__),
                "filter %d has no non-zero DFT bin at the default frame length %d (DFT %d)" % (
                    i, comp.frame_length, D)))
            break
    return core.result(viol, obs=(comp.frame_length > 0), sample=dict(bank=b, pad=pad, L=comp.frame_length))


def subchecks(tier, seed):
    banks = list(cfg.TINY_BANKS)
    Ls = range(2, 13) if tier == "quick" else list(range(2, 21)) + [25, 32, 33]
    pts = []
    for b in banks:
        for L in Ls:
            for S in sorted(set(s for s in (1, 2, 3, L) if s <= L)):
                for pad in (True, False):
                    for st in STYLES:
                        for w in ("hamming", None):
                            pts.append((b, L, S, pad, st, w))
            # frame shifts LARGER than the frame length (samples are skipped), and the extra styles
            if L in (2, 3, 4, 5, 8):
                for S in (L + 1, 2 * L + 1, 3 * L):
                    for st in STYLES:
                        pts.append((b, L, S, False, st, "hamming"))
            if L in (3, 4, 6, 7):
                for st in EXTRA_STYLES:
                    for w in ("hamming", None):
                        pts.append((b, L, 2, True, st, w))
    if tier == "thorough":
        for scale in ("mel", "bark", "linear", {"name": "octave", "low_hz": 20.0}):
            for name in ("gabor", "tri", "gammatone"):
                b = {"name": name, "scaling_function": scale, "num_filts": 3,
                     "low_hz": 20.0, "sampling_rate": 1000}
                for L in (4, 7, 8, 11, 12, 16):
                    for pad in (True, False):
                        pts.append((b, L, 3, pad, STYLES[1], "hamming"))
    # realistic geometry (25 ms / 10 ms at 8 and 16 kHz, 40- and 23-filter banks, also the odd-shift
    # 44.1 kHz framing 1102/441) - a few points, but every index computation at full size
    for rate, nf in ((8000, 23), (16000, 40), (44100, 12)) if tier == "thorough" else ((8000, 10),):
        L, S = int(0.025 * rate), int(0.010 * rate)
        for name in ("fbank", "gabor", "tri"):
            b = {"name": name, "num_filts": nf, "low_hz": 20.0, "sampling_rate": rate}
            if name != "fbank":
                b["scaling_function"] = "mel"
            for pad in (True, False):
                for st in STYLES:
                    pts.append((b, L, S, pad, st, "hamming"))
    dl = []
    for rate in (1000, 8000, 16000):
        for nf in (2, 5, 11) + ((40,) if tier == "thorough" else ()):
            for low in (0.0, 20.0):
                for scale in ("mel", "linear", "bark"):
                    for name in ("tri", "gabor", "gammatone"):
                        for pad in (True, False):
                            dl.append(({"name": name, "scaling_function": scale, "num_filts": nf,
                                        "low_hz": low, "sampling_rate": rate}, pad))
                for pad in (True, False):
                    dl.append(({"name": "fbank", "num_filts": nf, "low_hz": low, "sampling_rate": rate}, pad))
    return [
        core.SubCheck(
            "definition", pts, lambda p: _eval(p, seed),
            "real compute_full vs definitional reference at every lattice point; inner loop: "
            "use_log x use_power x include_energy x N in {0,L//2,L//2+1,L,2L+1,3L+S} (x data/route alphabet {generic, zeros, loud-then-quiet, outlier, tiny, strided view, negative-stride view, big-endian, computer via deepcopy, via pickle round trip, after an earlier compute_full, numpy error state all='raise' with generic / zero / loud-then-quiet signals, constructor flags spelled 0/1 and numpy.bool_} at N=L and 3L+S); "
            "non-trivial = at least one frame produced",
            axes=dict(bank=banks, L=list(Ls), S="{1,2,3,L}", pad=[True, False],
                      style=["causal", "centered", "centered+kaldi"], window=["hamming", "default"]),
            replay=lambda case: _replay(case, seed)),
        core.SubCheck(
            "shared_bank", _shared_points(tier), lambda p: _shared_bank(p, seed),
            "construction histories: every ordered pair (and unordered triple) of STFT computers over a "
            "small geometry alphabet (same/different frame length, padded/unpadded DFT, styles) built on "
            "ONE bank instance; each, evaluated after all were built, must equal the definition computed "
            "with a fresh bank",
            replay=lambda case: _shared_bank((case["bank"], [tuple(q) for q in case["seq"]]), seed)),
        core.SubCheck(
            "default_length", dl, _default_len,
            "frame_length_ms=None keeps >=1 non-zero DFT bin per filter, over banks x scales x "
            "rates x num_filts x low_hz x pad"),
    ]
