"""C06 - the frequency-domain representations of a filter agree (engine L).

For every constructible bank of the lattice, every filter and every DFT width of a finite
list: get_truncated_response, rebuilt by the docstring recipe (mc/refs/banks.py:rebuild_full),
against get_frequency_response; index ranges; half=True; Hermitian symmetry of real banks;
analytic triangular banks vanish on negative frequencies; all values finite.

  agree_<class>   the C05 design lattice plus odd-rate banks (default top edge, floor(rate/2))
  agree_boundary  triangular / Fbank banks whose top edge sits on every boundary the constructors
                  know (default, floor(rate/2), rate/2, rate/2 + 0.5, rate/2 + 1; even and odd
                  rates) x the quick widths and widths large enough to resolve 0.5 Hz at the
                  Nyquist frequency
  agree_threshold banks built after EFFECTIVE_SUPPORT_THRESHOLD was lowered (1e-4) / raised (2e-3): the bound
                  "twice the threshold" is the threshold IN FORCE
  threshold_history  the constant is changed between two uses of one bank object
  history         call histories on ONE bank object (engine in c05.py): every sequence of 2 / 3
                  calls over {get_frequency_response(half False / True), get_truncated_response}

Every (bank, filter, width) case is evaluated on a bank object of its own (truncated, full,
half - in this order), which is exactly what the replay of the case does: a case cannot depend
on the cases evaluated before it.  Dependence on call history is the business of `history`.
"""
import numpy as np

from .. import computers, core
from ..refs import banks as ref
from . import c05

LEVEL = "exploration"
ASSUMPTIONS = [
    "the bank lattice is C05's design lattice (4 classes x 4 scales x num_filts x 3 rates x 4 ranges x every "
    "flag combination) plus boundary banks: odd / fractional rates {1001.5, 11025} with the default and the floor(rate/2) top "
    "edge for all classes, and for the compactly supported classes rates {1000, 1001, 2000.5, 8000} x top edge in "
    "{default, floor(rate/2), rate/2, rate/2 + 0.5, rate/2 + 1}; widths are a stated finite list, not all "
    "integers",
    "every case runs on a bank object of its own (enumeration: a copy of a constructed object that "
    "was never used, mutable attributes deep-copied; replay: a newly constructed object - assumed equivalent); the history sub-check's differential oracle is a fresh "
    "object of the same class in the same process (see C05): state shared between objects is not explored",
    "a valid configuration whose constructor raises is counted as unconstructible (C05's rule)",
    "'identical' (triangular, Fbank) is read as |difference| <= 1e-12: Fbank's two code paths differ by "
    "one ulp (scalar vs array square root), which is not counted as a disagreement",
    "threshold axis: EFFECTIVE_SUPPORT_THRESHOLD in {default, 1e-4, 2e-3} is set before the bank is constructed "
    "(agree_threshold) or changed between two uses of one object (threshold_history); 'eps' in the rebuilt-vs-full "
    "bound is always the value in force when the bound is evaluated. Lowering the constant under an existing "
    "Gabor / gammatone bank (whose truncation was fixed by the value it was built under) is left open",
    "no signal data is involved: pass/fail cannot depend on VERIF_SEED",
]

QUICK_WIDTHS = (2, 3, 4, 5, 7, 8, 16, 31, 32, 64, 127, 200, 256, 512)
# "identical" for the compactly supported banks: no approximation is involved, but Fbank takes the
# square root once per scalar and once per array, which numpy rounds differently in the last bit
COMPACT_TOL = 1e-12
FEW_WIDTHS = {"quick": (3, 64), "thorough": (3, 8, 64, 255)}
MAX_PERIODS = 4096
# resolving a top edge 0.5 / 1 Hz above the Nyquist frequency takes rate / (2 * excess) bins (odd widths)
# or twice that (even widths): 1001 / 2000 at 1 kHz, 4001 / 8192 at 8 kHz (1 Hz)
BIG_WIDTHS = (1001, 2000, 4001, 8192)
ODD_RATES = (1001.5, 11025)


def widths_for(tier, kind):
    """the full width list of a tier"""
    if tier == "quick":
        return list(QUICK_WIDTHS)
    if kind == "gabor":
        # get_frequency_response is a Python double loop (bins x periods): bounded accordingly
        return sorted(set(range(2, 257)) | set(QUICK_WIDTHS) | {1024})
    return sorted(set(range(2, 601)) | {1024, 2048, 4095})


def widths_for_filter(tier, kind, periods, extra_bank=False):
    """Cost bound.  The library sums one term per 2 pi period spanned by the advertised support
    for every bin of every call (order-1 gammatones span 500 - 2500 periods), so the number of
    widths shrinks with the number of periods; None = filter not enumerated.  The banks the
    thorough tier adds to the C05 design lattice (23 / 40 filters, re-parameterised scales)
    get the quick width list."""
    if not np.isfinite(periods):
        periods = 0.0  # NaN supports: every call raises at once
    if periods > MAX_PERIODS:
        return None
    if tier == "quick":
        return list(QUICK_WIDTHS) if periods <= 32 else list(FEW_WIDTHS[tier])
    if periods <= 8 and not extra_bank:
        return widths_for(tier, kind)
    return list(QUICK_WIDTHS) if periods <= 64 else list(FEW_WIDTHS[tier])


def _eval_fw(bank, b, tags, i, w, e):
    """-> (list of (what, extra_tags, detail), notes)"""
    out = []
    notes = set()
    real = bool(bank.is_real)
    compact = b["name"] in ("tri", "fbank")
    rt = computers.call(bank.get_truncated_response, i, w)
    rf = computers.call(bank.get_frequency_response, i, w)
    rh = computers.call(bank.get_frequency_response, i, w, True)
    for name, r in (("truncated", rt), ("full", rf), ("half", rh)):
        if r[0] != "ok":
            out.append(("exception", dict(exc=r[1]),
                        "%s response of filter %d at width %d raised %s: %s" % (name, i, w, r[1], r[2])))
            break
    if out:
        return out, {"exception"}
    try:
        start, trnc = rt[1]
        trnc = np.asarray(trnc)
        start = int(start)
    except Exception as ex:  # not a (start, array) pair
        return [("truncated_type", {}, "get_truncated_response returned %r (%s)" % (rt[1], ex))], notes
    full = np.asarray(rf[1])
    half = np.asarray(rh[1])
    if full.shape != (w,):
        return [("shape", {}, "full response has shape %r for width %d" % (full.shape, w))], notes
    for name, a in (("truncated", trnc), ("full", full), ("half", half)):
        if not np.all(np.isfinite(a)):
            out.append(("nonfinite", {},
                        "%s response of filter %d at width %d has non-finite values" % (name, i, w)))
            break
    if out:
        return out, {"nonfinite"}
    # --- index ranges
    if not 0 <= start < w:
        out.append(("start_range", {}, "filter %d width %d: start bin %d outside [0, %d)" % (i, w, start, w)))
    if real and start + len(trnc) > w // 2 + 1:
        out.append(("half_spectrum", {}, "filter %d width %d: real truncated response [%d, %d) leaves the half "
                    "spectrum (%d bins)" % (i, w, start, start + len(trnc), w // 2 + 1)))
    # --- rebuild
    if not out:
        try:
            rebuilt = ref.rebuild_full(start, trnc, w, real)
        except ref.OutOfRecipe as ex:
            out.append(("rebuild_recipe", {}, "filter %d width %d: docstring recipe not applicable: %s" % (i, w, ex)))
            rebuilt = None
        if rebuilt is not None:
            if start + len(trnc) > w:
                notes.add("wraps")
            if len(trnc) == w and start == 0:
                notes.add("whole_period")
            if np.any(rebuilt != 0):
                notes.add("nonzero")
            d = np.abs(rebuilt - full)
            lim = COMPACT_TOL if compact else 2 * e
            if not np.all(d <= lim):
                k = int(np.argmax(d))
                out.append(("rebuild", {}, "filter %d width %d: rebuilt[%d] = %r, get_frequency_response[%d] = %r "
                            "(|diff| %.3g > %.3g; start %d, %d truncated bins)" % (
                                i, w, k, complex(rebuilt[k]), k, complex(full[k]), float(d[k]), lim, start,
                                len(trnc))))
    # --- half=True
    hl = ref.half_len(w)
    if half.shape != (hl,):
        out.append(("half_length", {}, "filter %d width %d: half=True has shape %r, documented %d" % (
            i, w, half.shape, hl)))
    elif not np.all(np.abs(half - full[:hl]) <= 1e-12 * max(1.0, float(np.max(np.abs(full))))):
        k = int(np.argmax(np.abs(half - full[:hl])))
        out.append(("half", {}, "filter %d width %d: half=True bin %d = %r, full response %r" % (
            i, w, k, complex(half[k]), complex(full[k]))))
    # --- symmetry
    if real:
        mirror = np.conj(full[(-np.arange(w)) % w])
        if not np.all(np.abs(full - mirror) <= 1e-12 * max(1.0, float(np.max(np.abs(full))))):
            k = int(np.argmax(np.abs(full - mirror)))
            out.append(("hermitian", {}, "filter %d width %d: X[%d] = %r but conj X[%d] = %r" % (
                i, w, k, complex(full[k]), (w - k) % w, complex(mirror[k]))))
    elif compact:  # analytic triangular / Fbank
        neg = full[w // 2 + 1:]
        if np.any(neg != 0):
            k = w // 2 + 1 + int(np.argmax(np.abs(neg)))
            out.append(("analytic_negative", {}, "filter %d width %d: bin %d (negative frequency) = %r, "
                        "documented 0" % (i, w, k, complex(full[k]))))
    return out, notes


def _case(b, i, w, e, pristine=None):
    """one (bank, filter, width) case on a bank object of its own -> (findings, notes) or None"""
    if pristine is not None:
        bank = pristine.fresh()
    else:
        r = c05.build(b)
        if r[0] != "ok":
            return None
        bank = r[1]
    return _eval_fw(bank, b, c05.bank_tags(b), i, w, e)


@c05.quiet
@c05.with_threshold
def _bank(b, tier, widths_fn=None):
    r = c05.build(b)
    if r[0] != "ok":
        return c05.unconstructible(r)
    bank = r[1]  # only read for num_filts / supports_hz; every case gets an object of its own
    pristine = c05.Pristine(b)  # never touched, only copied
    tags = c05.bank_tags(b)
    e = c05.eps()
    viol, seen, notes = [], set(), set()
    evals = nontriv = 0
    rate = float(b["sampling_rate"])
    nwidths = 0
    # max_centered only multiplies the response by a phase factor; the every-width sweep is run on
    # the causal twin of each gammatone bank
    extra = b["num_filts"] > 11 or b.get("scaling_function") in c05.EXTRA_SCALES or \
        bool(b.get("max_centered", False)) or b["sampling_rate"] in ODD_RATES
    for i in range(bank.num_filts):
        try:
            lo, hi = bank.supports_hz[i]
            periods = (float(hi) - float(lo)) / rate
        except Exception:
            periods = 0.0
        if widths_fn is not None:
            widths = widths_fn(b)
            if periods > 32 and b.get("threshold") is not None:
                widths = list(FEW_WIDTHS[tier])
        else:
            widths = widths_for_filter(tier, b["name"], periods, extra_bank=extra)
        if widths is None:
            notes.add("not_enumerated_too_many_periods")
            continue
        if len(widths) <= 4:
            notes.add("few_widths")
        nwidths += len(widths)
        for w in widths:
            evals += 1
            got, nt = _case(b, i, w, e, pristine)
            notes |= nt
            if "nonzero" in nt:
                nontriv += 1
            for what, extra_tags, detail in got:
                key = (what,) + tuple(sorted(extra_tags.items()))
                if key not in seen:
                    viol.append(core.violation(dict(tags, what=what, **extra_tags), detail,
                                               dict(bank=b, filt=i, width=w)))
                seen.add(key)
    return core.result(viol, evals=evals, nontrivial_count=nontriv,
                       obs=(b["name"], sorted(notes), sorted(map(str, seen))),
                       sample=dict(bank=b, filters=bank.num_filts, filter_width_pairs=nwidths))


@c05.quiet
def _replay(case):
    if "t0" in case:
        return c05.threshold_history_point(case, _threshold_judge)
    with c05.threshold_in_force(case["bank"].get("threshold")):
        return _replay_case(case)


def _replay_case(case):
    b = case["bank"]
    res = _case(b, case["filt"], case["width"], c05.eps())
    if res is None:
        return c05.unconstructible(c05.build(b))
    return core.result([core.violation(dict(c05.bank_tags(b), what=what, **extra), detail, case)
                        for what, extra, detail in res[0]])


THR_WIDTHS = (5, 16, 31, 64, 255, 512)
THR_HISTORY_WIDTHS = (16, 31, 64, 255)


def threshold_banks(tier):
    """banks built with a lowered / raised EFFECTIVE_SUPPORT_THRESHOLD in force.  Narrow filters (many
    filters, high rates) are the ones whose truncated response is genuinely truncated."""
    nfs = (3, 11) if tier == "thorough" else (11,)
    two = lambda kind, rate: [(20.0, None), (0.0, rate / 2.0)]  # noqa: E731
    out = c05.bank_lattice(("gabor", "gammatone"), (40,), (16000,), orders=(4,), scales=("mel",),
                           ranges_fn=lambda kind, rate: [(20.0, None)])
    out += c05.bank_lattice(("gabor", "gammatone"), nfs, (8000, 16000), orders=(2, 4), ranges_fn=two)
    out += c05.bank_lattice(("tri", "fbank"), nfs, (8000,), scales=("mel",), ranges_fn=two)
    return c05.thresholded(out)


def threshold_history_banks(tier):
    out = [dict(b) for b in PAIR_BANKS]
    out += c05.bank_lattice(("gabor", "gammatone"), (24,), (16000,), orders=(2, 4), scales=("mel",),
                            ranges_fn=lambda kind, rate: [(20.0, None)])
    return out


def _threshold_judge(bank, b, e):
    found, evals = [], 0
    tags = c05.bank_tags(b)
    for i in range(bank.num_filts):
        for w in THR_HISTORY_WIDTHS:
            evals += 1
            got, _ = _eval_fw(bank, b, tags, i, w, e)
            found += [(what, extra, detail, i, w) for what, extra, detail in got]
    return found, evals


def odd_rate_ranges(kind, rate):
    """odd rates in the per-class sub-checks: the default top edge and floor(rate/2), which every class
    accepts (the other boundary values are in agree_boundary for the classes that accept them)"""
    return [(low, high) for low in (0.0, 20.0) for high in (None, c05.floor_nyquist(rate))]


def odd_banks(tier):
    nfs = (1, 3, 11) if tier == "thorough" else (1, 3)
    return c05.bank_lattice(c05.ALL_KINDS, nfs, ODD_RATES, orders=(2, 4, 6), ranges_fn=odd_rate_ranges)


def boundary_banks(tier):
    return c05.edge_lattice(("tri", "fbank"), nfs=(1, 3, 11) if tier == "thorough" else (1, 3))


def boundary_widths(b):
    return list(QUICK_WIDTHS) + list(BIG_WIDTHS)


def _alphabet(b, bank):
    # the small widths share bin counts between (width, half) pairs; at those widths wide filters
    # take the whole-period fallback of get_truncated_response, so one larger width per filter is
    # added for the truncated call (the genuinely truncated code path), incl. the SAME call twice
    out = c05.history_alphabet(b, ("freq", "freq_half", "trunc"), lambda i: c05.HISTORY_WIDTHS)
    big = 300 if b["name"] == "gabor" else 1024
    for i in sorted({0, b["num_filts"] - 1}):
        out.append(["trunc", i, big])
    return out


def lattice(tier):
    if tier == "quick":
        # order-1 gammatones cost ~1000 periods per bin: sub-lattice num_filts {1, 3} in the quick tier
        return c05.tier_lattice(tier, orders=(2, 4, 6)) + \
            c05.bank_lattice(("gammatone",), (1, 3), c05.RATES, orders=(1,)) + odd_banks(tier)
    return c05.tier_lattice(tier) + odd_banks(tier)


PAIR_BANKS = [
    {"name": "fbank", "num_filts": 5, "low_hz": 20.0, "sampling_rate": 8000},
    {"name": "fbank", "num_filts": 5, "low_hz": 20.0, "sampling_rate": 16000},
    {"name": "fbank", "num_filts": 7, "low_hz": 0.0, "sampling_rate": 16000, "analytic": True},
    {"name": "tri", "scaling_function": "mel", "num_filts": 5, "low_hz": 20.0, "sampling_rate": 8000},
    {"name": "tri", "scaling_function": "bark", "num_filts": 5, "low_hz": 20.0, "sampling_rate": 16000},
    {"name": "gabor", "scaling_function": "mel", "num_filts": 5, "low_hz": 20.0, "sampling_rate": 8000},
    {"name": "gabor", "scaling_function": "mel", "num_filts": 5, "low_hz": 20.0, "sampling_rate": 16000,
     "scale_l2_norm": True},
    {"name": "gammatone", "scaling_function": "mel", "num_filts": 5, "low_hz": 20.0, "sampling_rate": 8000},
    {"name": "gammatone", "scaling_function": "mel", "num_filts": 5, "low_hz": 20.0, "sampling_rate": 16000,
     "order": 3},
]


@c05.quiet
def _pair_point(pt, evaluator=None):
    """two bank OBJECTS alive in one process (each chunk runs in a freshly forked child): A is
    queried, then B at the same widths, then A again; every (bank, filter, width) case must satisfy
    the property's own oracle - state shared between bank objects (class- or module-level caches
    keyed without the bank's parameters) shows up on the second bank or on the return to the first"""
    ia, ib = pt
    evaluator = evaluator or _eval_fw
    ba, bb = PAIR_BANKS[ia], PAIR_BANKS[ib]
    ra, rb = c05.build(ba), c05.build(bb)
    if ra[0] != "ok" or rb[0] != "ok":
        return core.result([], nontrivial=False, obs="unconstructible", skipped=True)
    e = c05.eps()
    viol, seen = [], set()
    evals = 0
    for who, bank, b in (("A", ra[1], ba), ("B", rb[1], bb), ("A", ra[1], ba)):
        for w in (64, 256):
            for i in sorted({0, b["num_filts"] - 1}):
                evals += 1
                got = evaluator(bank, b, c05.bank_tags(b), i, w, e) if evaluator is _eval_fw \
                    else evaluator(bank, b, i, w, e)
                for what, extra_tags, detail in got[0]:
                    key = (what, who) + tuple(sorted(extra_tags.items()))
                    if key not in seen:
                        seen.add(key)
                        viol.append(core.violation(
                            dict(c05.bank_tags(b), what=what, pair=True, second_object=(who == "B"), **extra_tags),
                            "banks A=%r and B=%r alive in one process, queried A, B, A: on %s %s" % (
                                ba, bb, who, detail), dict(pair=[ia, ib])))
    return core.result(viol, evals=evals, nontrivial_count=evals, obs=[ia, ib, len(viol) == 0],
                       sample=dict(A=ba, B=bb))


# ---------------------------------------------------------------- argument types; arguments are not modified
#
# "every filter index and DFT width" is an integer: a Python int, a numpy integer scalar, or a 0-d integer
# array (what np.asarray(512), an entry of an .npz file or a reduction returns).  All of these are accepted by
# the unchanged tree and give bit-identical results for signed types of 16 bits and more at these widths (probed);
# narrow unsigned types, whose arithmetic wraps, are not enumerated.  The caller's objects must be what they
# were after every call (a 0-d array is mutable: an augmented assignment inside the library would change it).

ARG_TYPES = ("int16", "int32", "int64", "intp", "array0d_int16", "array0d_int32", "array0d_int64",
             "array0d_readonly")
ARG_WHICH = ("width", "filter", "both")
ARG_WIDTHS = (2, 3, 16, 17, 64, 255, 512)
ARG_CALLS = (("trunc",), ("freq", False), ("freq", True))
ARG_BANKS = PAIR_BANKS + [
    {"name": "tri", "scaling_function": "linear", "num_filts": 3, "low_hz": 0.0, "sampling_rate": 1000,
     "analytic": True},
    {"name": "gammatone", "scaling_function": "bark", "num_filts": 3, "low_hz": 0.0, "sampling_rate": 16000,
     "max_centered": True, "erb": True},
    {"name": "gabor", "scaling_function": "linear", "num_filts": 3, "low_hz": 0.0, "sampling_rate": 1000,
     "erb": True},
]


def make_arg(kind, v):
    if kind == "int":
        return int(v)
    if kind.startswith("array0d_"):
        if kind == "array0d_readonly":
            a = np.array(v, dtype=np.int64)
            a.flags.writeable = False
            return a
        return np.array(v, dtype=getattr(np, kind[len("array0d_"):]))
    return getattr(np, kind)(v)


def arg_state(x):
    return (type(x).__name__, str(getattr(x, "dtype", "")), tuple(getattr(x, "shape", ())),
            np.asarray(x).tobytes())


@c05.quiet
def _argument_types(pt):
    ib, which, kind = pt
    b = ARG_BANKS[ib]
    r = c05.build(b)
    if r[0] != "ok":
        return c05.unconstructible(r)
    pristine = c05.Pristine(b)
    tags = dict(c05.bank_tags(b), arg_type=kind, arg=which)
    viol, seen = [], set()
    evals = 0

    def bad(what, call, detail, case):
        key = (what, call)
        if key not in seen:
            viol.append(core.violation(dict(tags, what=what, call=call), detail, case))
        seen.add(key)

    for i in sorted({0, b["num_filts"] - 1}):
        for w in ARG_WIDTHS:
            for spec in ARG_CALLS:
                evals += 1
                c = [spec[0], i, w] + list(spec[1:])
                want = c05.do_call(pristine.fresh(), c)
                if want[0] != "ok":
                    continue        # judged by agree_<class>
                ai = make_arg(kind if which in ("filter", "both") else "int", i)
                aw = make_arg(kind if which in ("width", "both") else "int", w)
                before = (arg_state(ai), arg_state(aw))
                bank = pristine.fresh()
                if spec[0] == "trunc":
                    got = computers.call(bank.get_truncated_response, ai, aw)
                else:
                    got = computers.call(bank.get_frequency_response, ai, aw, spec[1])
                after = (arg_state(ai), arg_state(aw))
                case = dict(arg_case=[ib, which, kind], filt=i, width=w, call=list(spec))
                name = c05.call_name(c)
                if after != before:
                    bad("argument_modified", name, "%s with filt_idx %r -> %r, width %r -> %r: the caller's argument "
                        "object was modified by the call" % (c05.call_text(c), before[0], after[0], before[1],
                                                             after[1]), case)
                if got[0] != "ok":
                    bad("argument_type_exception", name, "%s with %s given as %s raised %s: %s (a Python int is "
                        "accepted)" % (c05.call_text(c), which, kind, got[1], got[2]), case)
                elif not c05._bits_equal(c05._parts(got), c05._parts(want)):
                    bad("argument_type_values", name, "%s with %s given as %s differs from the result for a Python "
                        "int: %s" % (c05.call_text(c), which, kind,
                                     c05._close(c05._parts(got), c05._parts(want), 0.0)), case)
    return core.result(viol, evals=evals, nontrivial_count=evals, obs=(b["name"], which, kind, sorted(map(str, seen))),
                       sample=dict(bank=b, arg=which, arg_type=kind))


def _argument_replay(case):
    return _argument_types(tuple(case["arg_case"]))


def subchecks(tier, seed):
    banks = lattice(tier)
    subs = []
    for kind in ("tri", "fbank", "gabor", "gammatone"):
        ws = widths_for(tier, kind)
        pts = [b for b in banks if b["name"] == kind]
        subs.append(core.SubCheck(
            "agree_" + kind, pts, lambda b: _bank(b, tier),
            "%s banks of the C05 design lattice and of odd sampling rates (default / floor(rate/2) top edge) x every "
            "filter x %d DFT widths (%s), each case on a bank object of its own: rebuilt truncated response vs "
            "get_frequency_response (<= 2 eps; triangular/Fbank: <= 1e-12, i.e. identical up to the last bit), 0 <= start < width, real "
            "banks inside the half spectrum, half=True = leading bins with the documented length, Hermitian "
            "symmetry (real), zero negative frequencies (analytic triangular), finiteness. non-trivial = "
            "the rebuilt response has a non-zero bin; trivial bank = constructor raised. Cost bound: a filter "
            "whose supports_hz spans more than %d (quick) / 8, 64 (thorough) periods of the sampling rate gets "
            "the shorter width lists %r / %r; banks with more than 11 filters or a re-parameterised scale "
            "(thorough only), odd-rate banks and max_centered gammatone banks use the first of these lists" % (
                c05.CLASSNAME[kind], len(ws),
                ",".join(map(str, ws)) if len(ws) < 20 else "%d..%d and %s" % (
                    ws[0], max(x for x in ws if x < 1000), [x for x in ws if x >= 1000]),
                32, QUICK_WIDTHS, FEW_WIDTHS[tier]),
            axes=dict(num_filts=sorted(set(b["num_filts"] for b in pts)),
                      rate=sorted(set(b["sampling_rate"] for b in pts)),
                      scale=list(c05.SCALES), width=ws if len(ws) < 20 else "%d widths" % len(ws),
                      low_high="design lattice (see C05); odd rates %r: low {0, 20} x high {None, floor(rate/2)}" % (
                          ODD_RATES,),
                      flags="every combination (see C05)"),
            replay=_replay, chunk=4))
    bpts = boundary_banks(tier)
    bws = boundary_widths(None)
    subs.append(core.SubCheck(
        "agree_boundary", bpts, lambda b: _bank(b, tier, widths_fn=boundary_widths),
        "triangular / Fbank banks x 4 scales x num_filts x rates %r x low {0, 20} x top edge in {default, "
        "floor(rate/2), rate/2, rate/2 + 0.5, rate/2 + 1} x analytic x every filter x widths %r (the large ones "
        "resolve 0.5 Hz at the Nyquist frequency): the same oracles as agree_<class>. A configuration the "
        "class rejects (Fbank above floor(rate/2)) is counted as unconstructible; non-trivial = the rebuilt "
        "response has a non-zero bin" % (c05.EDGE_RATES, tuple(bws)),
        axes=dict(bank=["Fbank", "TriangularOverlappingFilterBank"],
                  num_filts=sorted(set(b["num_filts"] for b in bpts)), rate=list(c05.EDGE_RATES),
                  scale=list(c05.SCALES), low=[0.0, 20.0],
                  high="None, floor(rate/2), rate/2, rate/2 + 0.5, rate/2 + 1", width=bws, flags="analytic"),
        replay=_replay, chunk=4))
    tpts = threshold_banks(tier)
    subs.append(core.SubCheck(
        "agree_threshold", tpts, lambda b: _bank(b, tier, widths_fn=lambda b: list(THR_WIDTHS)),
        "banks built AFTER pydrobert.speech.config.EFFECTIVE_SUPPORT_THRESHOLD was set to %r (restored afterwards; "
        "every chunk of points runs in a forked process of its own): Gabor / gammatone (orders 2, 4) x 4 scales x "
        "num_filts x rates {8000, 16000} x ranges {(20, default), (0, Nyquist)} x every flag combination, 40 "
        "filters at 16 kHz, triangular / Fbank x every filter x widths %r (filters spanning > 32 periods: %r): the "
        "oracles of agree_<class> with eps = the threshold IN FORCE (rebuilt vs full <= 2 eps)" % (
            c05.THRESHOLDS, THR_WIDTHS, FEW_WIDTHS[tier]),
        axes=dict(threshold=list(c05.THRESHOLDS), num_filts=sorted(set(b["num_filts"] for b in tpts)),
                  rate=sorted(set(b["sampling_rate"] for b in tpts)), width=list(THR_WIDTHS),
                  flags="every combination"),
        replay=_replay, chunk=4))
    thb = threshold_history_banks(tier)
    subs.append(core.SubCheck(
        "threshold_history", c05.threshold_history_points(thb),
        lambda pt: c05.threshold_history_point(pt, _threshold_judge),
        "the constant is changed between two uses of ONE bank object: %d banks x transitions %r (None = default): "
        "the bank is built and all its read-only properties are read with the first value in force, then the "
        "second value is set and every filter x widths %r is checked against the oracles of agree_<class> with "
        "eps = the value now in force. Demanded for triangular / Fbank banks in both directions and for Gabor / "
        "gammatone banks after RAISING the constant (bounds implied by those at construction); lowering it under a "
        "Gabor / gammatone bank is left open (skipped)" % (len(thb), c05.THRESHOLD_TRANSITIONS, THR_HISTORY_WIDTHS),
        axes=dict(transitions=[list(t) for t in c05.THRESHOLD_TRANSITIONS], banks=len(thb),
                  width=list(THR_HISTORY_WIDTHS)),
        replay=_replay, chunk=2, kind="histories"))
    subs.append(core.SubCheck(
        "bank_pairs", [(a, b) for a in range(len(PAIR_BANKS)) for b in range(len(PAIR_BANKS)) if a != b],
        _pair_point,
        "every ordered pair of %d bank configurations (same class with different rates / flags, and "
        "different classes) alive in ONE freshly forked process, queried A, B, A at the same widths; each "
        "case must satisfy the property's oracle" % len(PAIR_BANKS),
        replay=lambda case: _pair_point(tuple(case["pair"])), chunk=1, kind="histories"))
    subs.append(core.SubCheck(
        "argument_types", [(ib, which, kind) for ib in range(len(ARG_BANKS)) for which in ARG_WHICH
                           for kind in ARG_TYPES], _argument_types,
        "%d banks (all classes, real / analytic, both gammatone centrings) x first / last filter x widths %r x "
        "{get_truncated_response, get_frequency_response half False / True} x which argument {width, filter "
        "index, both} x its type %r: the result is bit-identical to the one for Python ints (each call on a bank "
        "object of its own), nothing raises, and the caller's argument objects (type, dtype, shape, bytes) are "
        "what they were before the call. evaluations = calls" % (len(ARG_BANKS), ARG_WIDTHS, ARG_TYPES),
        axes=dict(arg_type=list(ARG_TYPES), arg=list(ARG_WHICH), width=list(ARG_WIDTHS), banks=ARG_BANKS,
                  not_enumerated="unsigned and 8-bit types (their arithmetic wraps at these widths)"),
        replay=_argument_replay, chunk=2))
    hist_banks = c05.history_banks(tier)
    # banks with many narrow filters: only there does get_truncated_response take its genuinely
    # truncated path (wide filters fall back to the whole period), so histories must include them
    for b in list(hist_banks):
        if b["name"] in ("gammatone", "gabor") and b["num_filts"] == 3 and b["sampling_rate"] == 16000:
            hist_banks.append(dict(b, num_filts=24))
    hist_alpha = 3 * 2 * len(c05.HISTORY_WIDTHS) + 2
    depth = 3 if tier == "thorough" else 2
    subs.append(core.SubCheck(
        "history", c05.history_points(tier, hist_banks, hist_alpha), lambda pt: c05.history_point(pt, _alphabet),
        "call histories on ONE bank object: 4 classes x every flag combination (gammatone orders 2, 4) x "
        "num_filts x rates (mel, low 0, default high) x every sequence of %d calls over "
        "{get_frequency_response(half False / True), get_truncated_response} x {first, last filter} x widths %r "
        "(full at 9, half at 16 and 17 all have 9 bins). Every result is held to the end of the sequence; then "
        "(1) its copy taken on return agrees (1e-12) with a fresh object's result for that call, (2) the held "
        "array is bit-identical to that copy, (3) no two held arrays share memory, (4) after the caller "
        "overwrites the held arrays with NaN the same calls still agree with a fresh object, (5) centres / "
        "supports are unchanged. evaluations = sequences; non-trivial = two different calls of the sequence "
        "return arrays of equal shape" % (depth, c05.HISTORY_WIDTHS),
        axes=dict(bank=sorted(c05.CLASSNAME), num_filts=sorted(set(b["num_filts"] for b in hist_banks)),
                  rate=sorted(set(b["sampling_rate"] for b in hist_banks)), width=list(c05.HISTORY_WIDTHS),
                  depth=depth, alphabet=hist_alpha),
        replay=c05.history_replay, chunk=1, kind="histories"))
    return subs
