"""An independent NIST SPHERE *writer* (uncompressed files only), for C11 / C12.

Format (NIST SPHERE 2.6 documentation): an ASCII header whose first two lines are
"NIST_1A" and the header size right-justified in 7 columns, then object-oriented
"name -type value" lines (types -i integer, -r real, -sN string of N bytes), the line
"end_head", and padding up to the header size (a multiple of 1024).  Sample data follows
immediately: interleaved frames of channel_count samples of sample_n_bytes bytes;
sample_byte_format "01" = least significant byte first, "10" = most significant first,
"1" for single-byte codings; sample_coding pcm | ulaw | alaw.

Nothing here is shared with pydrobert.speech._sphere.
"""
import struct

import numpy as np

CODINGS = ("pcm01", "pcm10", "ulaw", "alaw")

# extra (non-mandatory) fields of the kinds found in LDC corpora
_EXTRA_FRONT = [
    ("database_id", "-s5", "VERIF"),
    ("database_version", "-s3", "1.0"),
    ("utterance_id", "-s8", "xx0_ab12"),
]
_EXTRA_MID = [
    ("sample_sig_bits", "-i", "16"),
    ("recording_date", "-s11", "04-Oct-2026"),
    ("speaking_mode", "-s11", "read speech"),      # string value with a blank
    ("sample_min", "-i", "-32768"),
    ("sample_max", "-i", "32767"),
]
_EXTRA_BACK = [
    ("microphone", "-s13", "Sennheiser HM"),
    ("recording_duration", "-r", "1.250000"),
    ("sample_checksum", "-i", "12345"),
]


def bytes_per_sample(coding):
    return 2 if coding.startswith("pcm") else 1


def header_fields(coding, channels, count, rate=8000):
    """the mandatory fields, in the customary order"""
    nbytes = bytes_per_sample(coding)
    fields = [
        ("channel_count", "-i", str(int(channels))),
        ("sample_count", "-i", str(int(count))),
        ("sample_rate", "-i", str(int(rate))),
        ("sample_n_bytes", "-i", str(nbytes)),
    ]
    if coding == "pcm01":
        fields += [("sample_byte_format", "-s2", "01"), ("sample_coding", "-s3", "pcm")]
    elif coding == "pcm10":
        fields += [("sample_byte_format", "-s2", "10"), ("sample_coding", "-s3", "pcm")]
    elif coding in ("ulaw", "alaw"):
        fields += [("sample_byte_format", "-s1", "1"), ("sample_coding", "-s4", coding)]
    else:
        raise ValueError(coding)
    return fields


def build_header(fields, size=None, magic=b"NIST_1A", size_text=None):
    """header bytes; `size` None = smallest multiple of 1024 that fits.
    `magic` / `size_text` exist to build *faulty* headers on purpose."""
    body = b"".join(("%s %s %s\n" % f).encode("ascii") for f in fields) + b"end_head\n"
    need = 16 + len(body)
    if size is None:
        size = 1024 * ((need + 1023) // 1024)
    if need > size:
        raise ValueError("header of %d bytes does not fit in %d" % (need, size))
    if size_text is None:
        size_text = b"%7d" % size
    head = magic + b"\n" + size_text + b"\n" + body
    return head + b" " * (size - len(head) - 1) + b"\n" if len(head) < size else head


def header_variant(variant, coding, channels, count):
    """named header layouts: h1024 | h2048 | h3072 | extra | extra2048 | shuffled"""
    f = header_fields(coding, channels, count)
    if variant == "h1024":
        return build_header(f, 1024)
    if variant == "h2048":
        return build_header(f, 2048)
    if variant == "h3072":
        return build_header(f, 3072)
    if variant == "extra":
        g = _EXTRA_FRONT + f[:2] + _EXTRA_MID[:2] + f[2:4] + _EXTRA_MID[2:] + f[4:] + _EXTRA_BACK
        h = build_header(g)
        assert len(h) == 1024
        return h
    if variant == "extra2048":
        # enough preceding fields that every mandatory field lies beyond byte 1024
        filler = [("comment_%02d" % i, "-s40", "%040d" % i) for i in range(18)]
        h = build_header(_EXTRA_FRONT + filler + f + _EXTRA_BACK)
        assert len(h) == 2048 and h.index(b"channel_count") > 1024
        return h
    if variant == "shuffled":
        # mandatory fields in reverse order
        h = build_header(list(reversed(f)) + _EXTRA_MID[:1])
        assert len(h) == 1024
        return h
    raise ValueError(variant)


HEADER_VARIANTS = ("h1024", "h2048", "h3072", "extra", "extra2048", "shuffled")


def encode_samples(coding, samples):
    """samples: int array (count,) or (count, channels); pcm: int16 values, G.711: codes 0..255"""
    a = np.asarray(samples)
    if a.ndim == 1:
        a = a[:, None]
    flat = [int(v) for row in a.tolist() for v in row]      # frame-interleaved
    if coding == "pcm01":
        return struct.pack("<%dh" % len(flat), *flat)
    if coding == "pcm10":
        return struct.pack(">%dh" % len(flat), *flat)
    if coding in ("ulaw", "alaw"):
        return struct.pack("%dB" % len(flat), *flat)
    raise ValueError(coding)


def write_bytes(coding, samples, variant="h1024"):
    a = np.asarray(samples)
    channels = 1 if a.ndim == 1 else a.shape[1]
    return header_variant(variant, coding, channels, a.shape[0]) + encode_samples(coding, a)


def selftest():
    import io

    x = np.array([[0, 1], [-2, 258], [32767, -32768]])
    b = write_bytes("pcm01", x)
    assert len(b) == 1024 + 12 and b[:16] == b"NIST_1A\n   1024\n"
    assert b[1024:] == bytes([0, 0, 1, 0, 0xFE, 0xFF, 2, 1, 0xFF, 0x7F, 0, 0x80])
    b = write_bytes("pcm10", x, "h2048")
    assert len(b) == 2048 + 12 and b[8:16] == b"   2048\n"
    assert b[2048:] == bytes([0, 0, 0, 1, 0xFF, 0xFE, 1, 2, 0x7F, 0xFF, 0x80, 0])
    assert b"\nend_head\n" in b[:2048] and b[:2048].rstrip(b" \n").endswith(b"end_head")
    b = write_bytes("ulaw", np.array([0, 255, 7]))
    assert b[1024:] == bytes([0, 255, 7]) and b"sample_coding -s4 ulaw\n" in b
    for v in HEADER_VARIANTS:
        for c in CODINGS:
            h = header_variant(v, c, 3, 77)
            assert len(h) % 1024 == 0 and int(h.split(b"\n")[1]) == len(h)
            lines = h.split(b"\n")
            assert lines[0] == b"NIST_1A" and b"end_head" in lines
            names = [ln.split()[0] for ln in lines[2:lines.index(b"end_head")]]
            assert len(names) == len(set(names))
            for ln in lines[2:lines.index(b"end_head")]:
                name, typ, val = ln.decode().split(" ", 2)
                if typ.startswith("-s"):
                    assert int(typ[2:]) == len(val), ln
                elif typ == "-i":
                    int(val)
                else:
                    assert typ == "-r" and float(val) is not None
    # second opinion: libsndfile's own NIST reader, where available
    try:
        import soundfile as sf

        ok = "NIST" in sf.available_formats()
    except Exception:
        ok = False
    if ok:
        from . import g711

        pcm = np.array([[5, -7, 300], [-32768, 32767, 0], [1, 2, 3], [-4, -5, -6]])
        for v in HEADER_VARIANTS:
            if v == "extra2048":
                continue    # libsndfile only looks for the fields in the first 1024 bytes
            for c in ("pcm01", "pcm10"):
                got, rate = sf.read(io.BytesIO(write_bytes(c, pcm, v)), dtype="int16")
                assert rate == 8000 and np.array_equal(got, pcm), (v, c)
                got, _ = sf.read(io.BytesIO(write_bytes(c, pcm[:, 0], v)), dtype="int16")
                assert np.array_equal(got, pcm[:, 0]), (v, c)
            codes = np.arange(256).reshape(128, 2)
            for c in ("ulaw", "alaw"):
                got, _ = sf.read(io.BytesIO(write_bytes(c, codes, v)), dtype="int16")
                assert np.array_equal(got, g711.expand(c, codes)), (v, c)
    return True


if __name__ == "__main__":
    selftest()
    print("sphere writer selftest ok")
