"""An independent NIST SPHERE *writer* (uncompressed files only), for C11 / C12.

Format (NIST SPHERE 2.6 documentation): an ASCII header whose first two lines are
"NIST_1A" and the header size right-justified in 7 columns, then object-oriented
"name -type value" lines (types -i integer, -r real, -sN string of N bytes), the line
"end_head", and padding up to the header size.  NIST's own tools write multiples of 1024, but
the size line is what tells a reader where the samples start (sph2pipe and libsndfile both
seek to the declared size), so this writer produces any declared size >= the bytes the fields
need.  Sample data follows immediately: interleaved frames of channel_count samples of sample_n_bytes bytes;
sample_byte_format "01" = least significant byte first, "10" = most significant first,
"1" for single-byte codings; sample_coding pcm | ulaw | alaw.

Nothing here is shared with pydrobert.speech._sphere.
"""
import struct

import numpy as np

CODINGS = ("pcm01", "pcm10", "ulaw", "alaw")

# extra (non-mandatory) fields of the kinds found in LDC corpora
_EXTRA_FRONT = [
    ("database_id", "-s5", "VERIF"),
    ("database_version", "-s3", "1.0"),
    ("utterance_id", "-s8", "xx0_ab12"),
]
_EXTRA_MID = [
    ("sample_sig_bits", "-i", "16"),
    ("recording_date", "-s11", "04-Oct-2026"),
    ("speaking_mode", "-s11", "read speech"),      # string value with a blank
    ("sample_min", "-i", "-32768"),
    ("sample_max", "-i", "32767"),
]
_EXTRA_BACK = [
    ("microphone", "-s13", "Sennheiser HM"),
    ("recording_duration", "-r", "1.250000"),
    ("sample_checksum", "-i", "12345"),
]


def bytes_per_sample(coding):
    return 2 if coding.startswith("pcm") else 1


def header_fields(coding, channels, count, rate=8000):
    """the mandatory fields, in the customary order"""
    nbytes = bytes_per_sample(coding)
    fields = [
        ("channel_count", "-i", str(int(channels))),
        ("sample_count", "-i", str(int(count))),
        ("sample_rate", "-i", str(int(rate))),
        ("sample_n_bytes", "-i", str(nbytes)),
    ]
    if coding == "pcm01":
        fields += [("sample_byte_format", "-s2", "01"), ("sample_coding", "-s3", "pcm")]
    elif coding == "pcm10":
        fields += [("sample_byte_format", "-s2", "10"), ("sample_coding", "-s3", "pcm")]
    elif coding in ("ulaw", "alaw"):
        fields += [("sample_byte_format", "-s1", "1"), ("sample_coding", "-s4", coding)]
    else:
        raise ValueError(coding)
    return fields


def build_header(fields, size=None, magic=b"NIST_1A", size_text=None):
    """header bytes; `size` None = smallest multiple of 1024 that fits.
    `magic` / `size_text` exist to build *faulty* headers on purpose."""
    body = b"".join(("%s %s %s\n" % f).encode("ascii") for f in fields) + b"end_head\n"
    need = 16 + len(body)
    if size is None:
        size = 1024 * ((need + 1023) // 1024)
    if need > size:
        raise ValueError("header of %d bytes does not fit in %d" % (need, size))
    if size_text is None:
        size_text = b"%7d" % size
    head = magic + b"\n" + size_text + b"\n" + body
    return head + b" " * (size - len(head) - 1) + b"\n" if len(head) < size else head


LAYOUTS = ("plain", "extra", "shuffled", "deep")


def layout_fields(layout, coding, channels, count):
    """the field list of a named layout:
    plain     the mandatory fields in the customary order
    extra     corpus-style optional fields before, between and after the mandatory ones
    shuffled  mandatory fields in reverse order (plus one optional field)
    deep      so many preceding fields that every mandatory field lies beyond byte 1024"""
    f = header_fields(coding, channels, count)
    if layout == "plain":
        return f
    if layout == "extra":
        return _EXTRA_FRONT + f[:2] + _EXTRA_MID[:2] + f[2:4] + _EXTRA_MID[2:] + f[4:] + _EXTRA_BACK
    if layout == "shuffled":
        return list(reversed(f)) + _EXTRA_MID[:1]
    if layout == "deep":
        filler = [("comment_%02d" % i, "-s40", "%040d" % i) for i in range(18)]
        return _EXTRA_FRONT + filler + f + _EXTRA_BACK
    raise ValueError(layout)


def layout_min_size(layout, coding, channels, count):
    """smallest header size that holds the layout (never below the format's minimum of 1024)"""
    g = layout_fields(layout, coding, channels, count)
    need = 16 + sum(len("%s %s %s\n" % f) for f in g) + len("end_head\n")
    return max(1024, need)


def header_layout(layout, size, coding, channels, count):
    """header of exactly `size` bytes (any value >= layout_min_size, multiple of 1024 or not)"""
    h = build_header(layout_fields(layout, coding, channels, count), size)
    assert len(h) == size
    if layout == "deep":
        assert h.index(b"channel_count") > 1024
    return h


def header_variant(variant, coding, channels, count):
    """named headers: h<N> (plain layout, N bytes: h1024, h1500, h2048 ...) | extra | extra2048
    (= deep layout) | shuffled, the last three in the smallest multiple of 1024 that fits"""
    if variant[:1] == "h" and variant[1:].isdigit():
        return header_layout("plain", int(variant[1:]), coding, channels, count)
    if variant == "extra":
        h = build_header(layout_fields("extra", coding, channels, count))
        assert len(h) == 1024
        return h
    if variant == "extra2048":
        h = build_header(layout_fields("deep", coding, channels, count))
        assert len(h) == 2048 and h.index(b"channel_count") > 1024
        return h
    if variant == "shuffled":
        h = build_header(layout_fields("shuffled", coding, channels, count))
        assert len(h) == 1024
        return h
    raise ValueError(variant)


# more header sizes: next to and between the multiples of 1024, and a fifth block
ODD_SIZES = (1025, 1500, 2047, 2049, 2050, 4000, 5120)
HEADER_VARIANTS = ("h1024", "h2048", "h3072", "extra", "extra2048", "shuffled") + tuple(
    "h%d" % n for n in ODD_SIZES)


def encode_samples(coding, samples):
    """samples: int array (count,) or (count, channels); pcm: int16 values, G.711: codes 0..255"""
    a = np.asarray(samples)
    if a.ndim == 1:
        a = a[:, None]
    flat = [int(v) for row in a.tolist() for v in row]      # frame-interleaved
    if coding == "pcm01":
        return struct.pack("<%dh" % len(flat), *flat)
    if coding == "pcm10":
        return struct.pack(">%dh" % len(flat), *flat)
    if coding in ("ulaw", "alaw"):
        return struct.pack("%dB" % len(flat), *flat)
    raise ValueError(coding)


def write_bytes(coding, samples, variant="h1024"):
    a = np.asarray(samples)
    channels = 1 if a.ndim == 1 else a.shape[1]
    return header_variant(variant, coding, channels, a.shape[0]) + encode_samples(coding, a)


# ------------------------------------------------------------------ kinds of binary file objects
#
# "from an open binary stream": every kind of object the standard library hands out for reading bytes, plus
# minimal objects with / without a `name` attribute of every type a `name` has in practice (str, bytes, the
# integer file descriptor, None, a PathLike) - a reader may use nothing but read() and must not depend on
# what `name` is.  All of them return n bytes from read(n) unless at end of file.

STREAM_KINDS = (
    "bytesio",            # io.BytesIO: no name attribute
    "file",               # open(path, 'rb'): name is the path (str)
    "file_bytes_name",    # open(os.fsencode(path), 'rb'): name is bytes
    "file_unbuffered",    # open(path, 'rb', buffering=0): a raw FileIO
    "fdopen",             # os.fdopen(os.open(path, O_RDONLY), 'rb'): name is the integer descriptor
    "temporary_file",     # tempfile.TemporaryFile(): name is the integer descriptor
    "named_temporary",    # tempfile.NamedTemporaryFile(): a wrapper object, name is a str
    "spooled_memory",     # tempfile.SpooledTemporaryFile not rolled over: name is None
    "spooled_disk",       # ... rolled over to disk: name is the integer descriptor
    "pipe",               # os.fdopen(read end of os.pipe(), 'rb'), a thread writes: not seekable, name int
    "buffered_bytesio",   # io.BufferedReader(io.BytesIO(...)): `name` raises AttributeError
    "gzip",               # gzip.open(path + '.gz', 'rb'): name is a str with another suffix
    "mmap",               # mmap.mmap over the file: read(n), no name
    "read_only_object",   # an object with a read() method and nothing else
    "name_none", "name_int", "name_bytes", "name_pathlike", "name_empty_str", "name_angle_str",
    "name_dir_str",       # io.BytesIO subclass instances with .name = None / 7 / b'x.sph' /
                          # pathlib.Path / '' / '<stdin>' / 'some/dir/'
)


# Raw streams whose read(n) legitimately returns FEWER than n bytes before the end of the stream (io.RawIOBase
# semantics: what socket.makefile('rb', buffering=0), an unbuffered pipe or a wrapper that hands out at most
# `cap` bytes per call do).  Deterministic: the cap of the k-th capped read is caps[k % len(caps)].
# "short_<cap>": every read is capped (usable with headers that are read in pieces of at most cap bytes: the
# reader under test asks for 1024 bytes and then for the rest of the header in ONE read each and does not
# retry those, which no property covers).  "short_after_header_<...>": reads that start inside the NIST header
# (its declared size; 0 when the data has none) are served in full, every later one is capped.
SHORT_READ_VARYING = (5000, 1, 16383, 1024, 7, 4096, 16384, 3)
SHORT_READ_KINDS = (
    "short_1024", "short_4096", "short_5000", "short_16383",
    "short_after_header_1", "short_after_header_7", "short_after_header_1024", "short_after_header_varying",
)


def short_read_caps(kind):
    tail = kind.rsplit("_", 1)[1]
    return SHORT_READ_VARYING if tail == "varying" else (int(tail),)


def nist_header_size(data):
    """declared header size of SPHERE bytes, 0 if there is none"""
    if data[:8] != b"NIST_1A\n":
        return 0
    try:
        return max(0, int(data[8:16].split(b"\n")[0]))
    except ValueError:
        return 0


def short_read_stream(data, caps, full_prefix=0):
    """-> an io.RawIOBase over `data`: a read that starts at or after byte `full_prefix` returns at most
    caps[k % len(caps)] bytes (k counts these reads), never 0 before the end of the data"""
    import io

    caps = tuple(int(c) for c in caps)
    if not caps or min(caps) < 1:
        raise ValueError("caps must be positive")

    class ShortReads(io.RawIOBase):
        def __init__(self):
            io.RawIOBase.__init__(self)
            self._data, self._pos, self._k = bytes(data), 0, 0
            self.calls = []          # (requested, returned) per read

        def readable(self):
            return True

        def readinto(self, b):
            n = len(b)
            if self._pos >= full_prefix:
                n = min(n, caps[self._k % len(caps)])
                self._k += 1
            chunk = self._data[self._pos:self._pos + n]
            b[:len(chunk)] = chunk
            self._pos += len(chunk)
            self.calls.append((len(b), len(chunk)))
            return len(chunk)

    return ShortReads()


def open_short_read_stream(kind, data):
    if kind not in SHORT_READ_KINDS:
        raise ValueError(kind)
    prefix = nist_header_size(data) if kind.startswith("short_after_header_") else 0
    return short_read_stream(data, short_read_caps(kind), prefix)


class _ReadOnly:
    def __init__(self, data):
        import io

        self._b = io.BytesIO(data)

    def read(self, n=-1):
        return self._b.read(n)


def open_stream(kind, data, tmpdir):
    """context manager -> a binary file object of the given kind holding `data`, positioned at its start"""
    import contextlib
    import io
    import os
    import tempfile

    @contextlib.contextmanager
    def cm():
        with contextlib.ExitStack() as stack:
            path = None
            if kind in ("file", "file_bytes_name", "file_unbuffered", "fdopen", "gzip", "mmap"):
                fd, path = tempfile.mkstemp(prefix="obj-", suffix=".gz" if kind == "gzip" else ".dat",
                                            dir=tmpdir)
                os.close(fd)
                stack.callback(lambda: os.path.exists(path) and os.remove(path))
                if kind == "gzip":
                    import gzip

                    with gzip.open(path, "wb") as g:
                        g.write(data)
                else:
                    with open(path, "wb") as g:
                        g.write(data)
            if kind == "bytesio":
                f = io.BytesIO(data)
            elif kind == "file":
                f = stack.enter_context(open(path, "rb"))
            elif kind == "file_bytes_name":
                f = stack.enter_context(open(os.fsencode(path), "rb"))
            elif kind == "file_unbuffered":
                f = stack.enter_context(open(path, "rb", buffering=0))
            elif kind == "fdopen":
                f = stack.enter_context(os.fdopen(os.open(path, os.O_RDONLY), "rb"))
            elif kind == "gzip":
                import gzip

                f = stack.enter_context(gzip.open(path, "rb"))
            elif kind == "mmap":
                import mmap

                if not data:
                    f = io.BytesIO(data)         # an empty file cannot be mapped
                else:
                    g = stack.enter_context(open(path, "rb"))
                    f = stack.enter_context(mmap.mmap(g.fileno(), 0, access=mmap.ACCESS_READ))
            elif kind in ("temporary_file", "named_temporary", "spooled_memory", "spooled_disk"):
                if kind == "temporary_file":
                    f = tempfile.TemporaryFile(dir=tmpdir)
                elif kind == "named_temporary":
                    f = tempfile.NamedTemporaryFile(dir=tmpdir, suffix=".tmp")
                elif kind == "spooled_memory":
                    f = tempfile.SpooledTemporaryFile(max_size=len(data) + 1024, dir=tmpdir)
                else:
                    f = tempfile.SpooledTemporaryFile(max_size=8, dir=tmpdir)
                stack.enter_context(f)
                f.write(data)
                if kind == "spooled_disk":
                    f.rollover()
                f.seek(0)
            elif kind == "pipe":
                import threading

                r, w = os.pipe()
                f = stack.enter_context(os.fdopen(r, "rb"))

                def feed():
                    try:
                        with os.fdopen(w, "wb") as g:
                            g.write(data)
                    except OSError:
                        pass              # the reader closed its end early
                t = threading.Thread(target=feed, daemon=True)
                t.start()
                # (registered after the reader: runs first on exit only if pushed last - close the reader
                # first so that a blocked writer gets EPIPE, then join)
                stack.callback(t.join)
                stack.callback(f.close)
            elif kind == "buffered_bytesio":
                f = io.BufferedReader(io.BytesIO(data))
            elif kind == "read_only_object":
                f = _ReadOnly(data)
            elif kind in SHORT_READ_KINDS:
                f = stack.enter_context(open_short_read_stream(kind, data))
            elif kind.startswith("name_"):
                import pathlib

                class Named(io.BytesIO):
                    pass
                f = Named(data)
                f.name = {"name_none": None, "name_int": 7, "name_bytes": b"x.sph",
                          "name_pathlike": pathlib.Path("/nowhere/x.sph"), "name_empty_str": "",
                          "name_angle_str": "<stdin>", "name_dir_str": "some/dir/"}[kind]
            else:
                raise ValueError(kind)
            yield f
    return cm()


def name_class(f):
    """type of the object's `name` attribute ('absent' when it has none) - a structural tag"""
    try:
        n = f.name
    except Exception:
        return "absent"
    return "PathLike" if hasattr(n, "__fspath__") else type(n).__name__


def selftest():
    import io

    blob = bytes(range(256)) * 200
    for kind in SHORT_READ_KINDS:
        f = open_short_read_stream(kind, b"NIST_1A\n   1024\n" + blob)
        got, sizes = b"", []
        while True:
            c = f.read(16384)
            if not c:
                break
            got += c
            sizes.append(len(c))
        assert got == b"NIST_1A\n   1024\n" + blob, kind
        assert any(x < 16384 for x in sizes[:-1]), kind      # short before the end
        assert max(sizes[1:]) <= max(short_read_caps(kind)), kind

    x = np.array([[0, 1], [-2, 258], [32767, -32768]])
    b = write_bytes("pcm01", x)
    assert len(b) == 1024 + 12 and b[:16] == b"NIST_1A\n   1024\n"
    assert b[1024:] == bytes([0, 0, 1, 0, 0xFE, 0xFF, 2, 1, 0xFF, 0x7F, 0, 0x80])
    b = write_bytes("pcm10", x, "h2048")
    assert len(b) == 2048 + 12 and b[8:16] == b"   2048\n"
    assert b[2048:] == bytes([0, 0, 0, 1, 0xFF, 0xFE, 1, 2, 0x7F, 0xFF, 0x80, 0])
    assert b"\nend_head\n" in b[:2048] and b[:2048].rstrip(b" \n").endswith(b"end_head")
    b = write_bytes("ulaw", np.array([0, 255, 7]))
    assert b[1024:] == bytes([0, 255, 7]) and b"sample_coding -s4 ulaw\n" in b
    for v in HEADER_VARIANTS:
        for c in CODINGS:
            h = header_variant(v, c, 3, 77)
            assert int(h.split(b"\n")[1]) == len(h) and h[8:15] == b"%7d" % len(h)
            assert len(h) == (int(v[1:]) if v[1:].isdigit() else 2048 if v == "extra2048" else 1024)
            lines = h.split(b"\n")
            assert lines[0] == b"NIST_1A" and b"end_head" in lines
            names = [ln.split()[0] for ln in lines[2:lines.index(b"end_head")]]
            assert len(names) == len(set(names))
            for ln in lines[2:lines.index(b"end_head")]:
                name, typ, val = ln.decode().split(" ", 2)
                if typ.startswith("-s"):
                    assert int(typ[2:]) == len(val), ln
                elif typ == "-i":
                    int(val)
                else:
                    assert typ == "-r" and float(val) is not None
    # any size from the layout's minimum up; the fields never move, only the padding grows
    for lay in LAYOUTS:
        lo = layout_min_size(lay, "pcm01", 3, 77)
        assert lo >= 1024 and (lay == "deep") == (lo > 1024)
        ref = header_layout(lay, lo, "pcm01", 3, 77)
        for size in (lo, lo + 1, 2047, 2048, 2049, 4000):
            if size < lo:
                continue
            h = header_layout(lay, size, "pcm01", 3, 77)
            assert len(h) == size and int(h[8:15]) == size and h[15:16] == b"\n"
            end = h.index(b"end_head\n") + 9
            assert h[16:end] == ref[16:ref.index(b"end_head\n") + 9]
            assert set(h[end:-1]) <= {0x20} and h[-1:] == b"\n"
        if lo > 1024:
            try:
                header_layout(lay, lo - 1, "pcm01", 3, 77)
            except ValueError:
                pass
            else:
                raise AssertionError("a header smaller than its fields was built")
    # second opinion: libsndfile's own NIST reader, where available
    try:
        import soundfile as sf

        ok = "NIST" in sf.available_formats()
    except Exception:
        ok = False
    if ok:
        from . import g711

        pcm = np.array([[5, -7, 300], [-32768, 32767, 0], [1, 2, 3], [-4, -5, -6]])
        for v in HEADER_VARIANTS:
            if v == "extra2048":
                continue    # libsndfile only looks for the fields in the first 1024 bytes
            for c in ("pcm01", "pcm10"):
                got, rate = sf.read(io.BytesIO(write_bytes(c, pcm, v)), dtype="int16")
                assert rate == 8000 and np.array_equal(got, pcm), (v, c)
                got, _ = sf.read(io.BytesIO(write_bytes(c, pcm[:, 0], v)), dtype="int16")
                assert np.array_equal(got, pcm[:, 0]), (v, c)
            codes = np.arange(256).reshape(128, 2)
            for c in ("ulaw", "alaw"):
                got, _ = sf.read(io.BytesIO(write_bytes(c, codes, v)), dtype="int16")
                assert np.array_equal(got, g711.expand(c, codes)), (v, c)
        # ... which also seeks to whatever header size is declared
        for lay in ("plain", "extra", "shuffled"):
            for size in (1024, 1025, 1500, 2047, 2049, 4000):
                b = header_layout(lay, size, "pcm10", 3, 4) + encode_samples("pcm10", pcm)
                got, _ = sf.read(io.BytesIO(b), dtype="int16")
                assert np.array_equal(got, pcm), (lay, size)
    return True


if __name__ == "__main__":
    selftest()
    print("sphere writer selftest ok")
