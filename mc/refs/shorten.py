"""Reference model of the shorten v1/v2 stream format embedded in NIST SPHERE files.

Plain Python ints only; shares no code (and no tables) with
pydrobert/speech/_sphere.py.  Written from the format as T. Robinson's shorten
documents it (technical report CUED/F-INFENG/TR.156 and the 2.x sources' layout):

* the stream is ``ajkg`` + one version byte + a sequence of 32-bit big-endian words
  holding bits MSB first; the last word is zero padded;
* ``uvar(v, n)`` is a Rice code: ``v >> n`` zero bits, a one bit, the low n bits of v;
  ``var(v, n)`` folds the sign into the lowest bit (v >= 0 -> 2v, v < 0 -> 2(~v)+1) and
  writes ``uvar(., n + 1)``; ``ulong(v)`` is ``uvar(bitlength(v), 2)`` + ``uvar(v, bitlength)``;
* header: ulong type, channels, block size, max LPC order, mean length, skip count (+ skip bytes);
* commands ``uvar(fn, 2)``: DIFF0-3, QLPC, ZERO produce one block of the *current channel*
  (channels take turns, a frame is complete when the last channel has had its block);
  BLOCKSIZE (ulong) and BITSHIFT (uvar 2) change the block length / the number of dropped
  low bits; QUIT ends the stream;
* a block is coded on *internal* values (PCM: sample >> bitshift; mu-law: signed rank of
  the code among the codes representable with that shift, see `UlawMap`): residual width
  ``uvar(resn, 3)``, then one ``var(residual, resn)`` per sample against the predictor
  (DIFF0: running mean, DIFFn: n-th order polynomial on the previous internal values,
  QLPC: ``uvar(order, 2)``, ``var(coef, 5)`` per coefficient, prediction
  ``(lpcoffset + sum coef_j * (x[i-j-1] - mean)) >> 5`` added to the mean; lpcoffset is
  32 from version 2 on, 0 before);
* per channel the decoder keeps the last max(3, maxnlpc) internal values and the means of
  the last `nmean` blocks; version 1 keeps plain truncated means, version 2 rounds
  (adds half the divisor) and stores each mean scaled up by the bit shift in force,
  scaling the running mean down by the current shift.

`Encoder` turns a trace (header + commands with their target samples) into a SPHERE file;
`decode_payload` is the model's own decoder (used by the self test and to check the
model against the sph2pipe vectors).
"""
import os

MAGIC = b"ajkg"
ULONGSIZE, FNSIZE, ENERGYSIZE, LPCQSIZE, LPCQUANT, BITSHIFTSIZE, XBYTESIZE = 2, 2, 3, 2, 5, 2, 7
NWRAP = 3
FN_DIFF0, FN_DIFF1, FN_DIFF2, FN_DIFF3, FN_QUIT, FN_BLOCKSIZE, FN_BITSHIFT, FN_QLPC, FN_ZERO = range(9)
FN_NAMES = ["DIFF0", "DIFF1", "DIFF2", "DIFF3", "QUIT", "BLOCKSIZE", "BITSHIFT", "QLPC", "ZERO"]
TYPE_S16HL, TYPE_S16LH, TYPE_AU2 = 3, 5, 8
TYPE_AU1 = 0                       # the older mu-law type: no separate code for negative zero
ULAW_TYPES = (TYPE_AU1, TYPE_AU2)
PCM_TYPES = (TYPE_S16HL, TYPE_S16LH)
SUPPORTED_TYPES = (TYPE_S16HL, TYPE_S16LH, TYPE_AU2, TYPE_AU1)


class ModelError(Exception):
    """the trace / stream is outside the format (never a verdict about the implementation)"""


class InvalidTrace(ModelError):
    """a conforming encoder could not emit this command here"""


class StreamEnded(ModelError):
    """the model decoder ran out of bits"""


# ------------------------------------------------------------------ bits


class BitWriter:
    __slots__ = ("acc", "n")

    def __init__(self, acc=0, n=0):
        self.acc, self.n = acc, n

    def copy(self):
        return BitWriter(self.acc, self.n)

    def bits(self, value, nbits):
        if not 0 <= value < (1 << nbits):
            raise ModelError("value %d does not fit %d bits" % (value, nbits))
        self.acc = (self.acc << nbits) | value
        self.n += nbits

    def uvar_put(self, val, nbin):
        if val < 0 or not 0 <= nbin < 32:
            raise ModelError("uvar_put(%d, %d)" % (val, nbin))
        self.bits(0, val >> nbin)          # unary part: that many zeros ...
        self.bits(1, 1)                    # ... closed by a one
        self.bits(val & ((1 << nbin) - 1), nbin)

    def var_put(self, val, nbin):
        self.uvar_put((((~val) << 1) | 1) if val < 0 else (val << 1), nbin + 1)

    def ulong_put(self, val):
        nbit = val.bit_length()
        self.uvar_put(nbit, ULONGSIZE)
        self.uvar_put(val, nbit)

    def tobytes(self):
        pad = (-self.n) % 32
        return (self.acc << pad).to_bytes((self.n + pad) // 8, "big")


class BitReader:
    """bits of whole 32-bit words only (a trailing partial word is not readable)"""

    def __init__(self, data):
        self.data = bytes(data[: 4 * (len(data) // 4)])
        self.nbits = 8 * len(self.data)
        self.pos = 0

    def bit(self):
        p = self.pos
        if p >= self.nbits:
            raise StreamEnded("bit %d" % p)
        self.pos = p + 1
        return (self.data[p >> 3] >> (7 - (p & 7))) & 1

    def uvar_get(self, nbin):
        v = 0
        while not self.bit():
            v += 1
        for _ in range(nbin):
            v = (v << 1) | self.bit()
        return v

    def var_get(self, nbin):
        u = self.uvar_get(nbin + 1)
        return ~(u >> 1) if u & 1 else u >> 1

    def ulong_get(self):
        return self.uvar_get(self.uvar_get(ULONGSIZE))


# ------------------------------------------------------------------ G.711 mu-law


def ulaw_expand(code):
    """ITU-T G.711 mu-law byte -> 16-bit linear value (sign, 3-bit exponent, 4-bit mantissa of
    the complemented byte; magnitude ((2m + 33) << e) - 33 on the 14-bit scale, times 4)"""
    u = ~code & 0xFF
    e, m = (u >> 4) & 7, u & 15
    mag = ((((m << 1) + 33) << e) - 33) << 2
    return -mag if u & 0x80 else mag


def ulaw_is_negative(code):
    return not code & 0x80


def ulaw_step_units(code):
    """magnitude of the code counted in steps of the finest segment, i.e. on the scale where
    the chord e starts at 16 * (2**e - 1) and has step 2**e.  A code is representable with
    `s` dropped bits iff this is a multiple of 2**s (all codes for s = 0)."""
    u = ~code & 0xFF
    e, m = (u >> 4) & 7, u & 15
    return ((16 + m) << e) - 16


class UlawMap:
    """internal value <-> mu-law code for the 'both zeros kept' type (TYPE_AU2), per shift.

    Rank the codes by their G.711 value (negative zero just below positive zero): +0 is
    internal 0 and the representable positive codes follow as 1, 2, ...; -0 is -1 and the
    representable negative codes follow as -2, -3, ... by growing magnitude.
    """

    _cache = {}

    def __init__(self, shift):
        order = sorted(range(256), key=lambda c: (ulaw_expand(c), 0 if ulaw_is_negative(c) else 1))
        # order[127] is -0 (0x7F), order[128] is +0 (0xFF)
        step = 1 << shift
        self.pos = [c for c in order[128:] if ulaw_step_units(c) % step == 0]
        self.neg = [c for c in reversed(order[:127]) if ulaw_step_units(c) % step == 0]
        self.minus_zero = order[127]
        self.inward = {c: i for i, c in enumerate(self.pos)}
        self.inward.update({c: -2 - i for i, c in enumerate(self.neg)})
        self.inward[self.minus_zero] = -1
        self.codes_by_value = [c for c in order if c in self.inward]

    @classmethod
    def get(cls, shift):
        m = cls._cache.get(shift)
        if m is None:
            m = cls._cache[shift] = cls(shift)
        return m

    def outward(self, v):
        if v == -1:
            return self.minus_zero
        if v >= 0:
            if v >= len(self.pos):
                raise InvalidTrace("mu-law internal value %d has no code at this shift" % v)
            return self.pos[v]
        if -2 - v >= len(self.neg):
            raise InvalidTrace("mu-law internal value %d has no code at this shift" % v)
        return self.neg[-2 - v]

    def nearest(self, code):
        """a representable code for an arbitrary one (same position in the value ranking)"""
        if code in self.inward:
            return code
        full = UlawMap.get(0).codes_by_value
        return self.codes_by_value[full.index(code) * len(self.codes_by_value) // 256]


# ------------------------------------------------------------------ the state machine


def tdiv(a, b):
    """integer division truncating towards zero (b > 0)"""
    q = abs(a) // b
    return -q if a < 0 else q


class Model:
    """decoder-visible state of a shorten stream after the header"""

    def __init__(self, version, ftype, nchan, blocksize, maxnlpc, nmean):
        if version not in (1, 2):
            raise ModelError("version %r" % version)
        if ftype not in SUPPORTED_TYPES:
            raise ModelError("sample type %r is not modelled" % ftype)
        if nchan < 1 or blocksize < 1 or maxnlpc < 0 or nmean < 0:
            raise ModelError("bad header")
        self.version, self.ftype, self.nchan = version, ftype, nchan
        self.bs0 = self.blocksize = blocksize
        self.maxnlpc, self.nmean = maxnlpc, nmean
        self.nwrap = max(NWRAP, maxnlpc)
        self.lpcqoffset = (1 << LPCQUANT) if version > 1 else 0
        self.bitshift = 0
        self.chan = 0
        self.hist = [[0] * self.nwrap for _ in range(nchan)]
        self.offs = [[0] * max(1, nmean) for _ in range(nchan)]   # signed types: initial mean 0
        self.out = [[] for _ in range(nchan)]
        # provenance (structure only, used for state merging): shift in force when each
        # history slot / mean slot was written, None = initial
        self.hist_from = [[None] * self.nwrap for _ in range(nchan)]
        self.offs_from = [[None] * max(1, nmean) for _ in range(nchan)]

    def copy_state_from(self, o):
        for k in ("version", "ftype", "nchan", "bs0", "blocksize", "maxnlpc", "nmean", "nwrap",
                  "lpcqoffset", "bitshift", "chan"):
            setattr(self, k, getattr(o, k))
        self.hist = [list(h) for h in o.hist]
        self.offs = [list(h) for h in o.offs]
        self.out = [list(h) for h in o.out]
        self.hist_from = [list(h) for h in o.hist_from]
        self.offs_from = [list(h) for h in o.offs_from]

    # ---- values
    def to_internal(self, x):
        if self.ftype == TYPE_AU1:
            # same ranking of the codes, but the negative codes follow 0 directly (-1, -2, ...) and
            # negative zero has no representation at all
            mm = UlawMap.get(self.bitshift)
            v = mm.inward.get(x)
            if v is None or v == -1:
                raise InvalidTrace("mu-law code %r not representable in the old mu-law type" % (x,))
            return v if v >= 0 else v + 1
        if self.ftype == TYPE_AU2:
            v = UlawMap.get(self.bitshift).inward.get(x)
            if v is None:
                raise InvalidTrace("mu-law code %r not representable with shift %d" % (x, self.bitshift))
            return v
        if not -32768 <= x <= 32767 or x & ((1 << self.bitshift) - 1):
            raise InvalidTrace("sample %r is not a 16-bit multiple of 2**%d" % (x, self.bitshift))
        return x >> self.bitshift

    def to_external(self, v):
        if self.ftype == TYPE_AU1:
            return UlawMap.get(self.bitshift).outward(v if v >= 0 else v - 1)
        if self.ftype == TYPE_AU2:
            return UlawMap.get(self.bitshift).outward(v)
        x = v << self.bitshift
        if not -32768 <= x <= 32767:
            raise InvalidTrace("internal value %d << %d leaves the 16-bit range" % (v, self.bitshift))
        return x

    # ---- running mean
    def coffset(self):
        if self.nmean == 0:
            return self.offs[self.chan][0]
        s = sum(self.offs[self.chan])
        if self.version < 2:
            return tdiv(s, self.nmean)
        return tdiv(s + self.nmean // 2, self.nmean) >> self.bitshift

    # ---- prediction of sample i of the current block; buf = history + values so far
    @staticmethod
    def predict_diff(order, buf, coffset):
        if order == 0:
            return coffset
        if order == 1:
            return buf[-1]
        if order == 2:
            return 2 * buf[-1] - buf[-2]
        return 3 * (buf[-1] - buf[-2]) + buf[-3]

    def predict_qlpc(self, coefs, centred):
        s = self.lpcqoffset
        for j, q in enumerate(coefs):
            s += q * centred[-1 - j]
        return s >> LPCQUANT

    def check_block_allowed(self, fn, nlpc=0):
        if self.blocksize > self.bs0:
            raise InvalidTrace("block longer than the size announced in the header")
        if fn == FN_QLPC:
            if nlpc > self.maxnlpc:
                raise InvalidTrace("LPC order above the header's maximum")
            if self.blocksize < self.nwrap:
                raise InvalidTrace("QLPC in a block shorter than the predictor history")

    def commit_block(self, internal):
        """mean update, history wrap, output conversion, channel cursor"""
        c, bs = self.chan, self.blocksize
        if len(internal) != bs:
            raise ModelError("block of %d values, block size %d" % (len(internal), bs))
        ext = [self.to_external(v) for v in internal]
        if self.nmean > 0:
            s = sum(internal)
            if self.version < 2:
                m = tdiv(s, bs)
            else:
                m = tdiv(s + bs // 2, bs) << self.bitshift
            self.offs[c] = self.offs[c][1:] + [m]
            self.offs_from[c] = self.offs_from[c][1:] + [self.bitshift]
        self.hist[c] = (self.hist[c] + list(internal))[-self.nwrap:]
        self.hist_from[c] = (self.hist_from[c] + [self.bitshift] * bs)[-self.nwrap:]
        self.out[c].extend(ext)
        self.chan = (c + 1) % self.nchan

    def set_blocksize(self, b):
        if b < 1 or b > self.bs0:
            raise InvalidTrace("block size %d outside 1..%d" % (b, self.bs0))
        if self.chan != 0:
            raise InvalidTrace("block size change inside a frame")
        self.blocksize = b

    def set_bitshift(self, s):
        # the shift is a per-BLOCK quantity in the format (a real encoder recomputes it for every
        # block of every channel), so a BITSHIFT command may also sit between the blocks of one frame
        self.bitshift = s

    def frames(self):
        n = len(self.out[-1])
        if any(len(o) != n for o in self.out):
            raise InvalidTrace("stream ends inside a frame")
        return n

    def control_key(self):
        """the part of the state that steers the decoder, without sample values: channel
        cursor, block size, shift, and for every history / mean slot only *when* it was
        written (initial or under which shift)"""
        return (self.chan, self.blocksize, self.bitshift,
                tuple(tuple(h) for h in self.hist_from), tuple(tuple(h) for h in self.offs_from))


# ------------------------------------------------------------------ encoder


def minimal_width(residuals):
    """smallest resn such that no residual needs a unary prefix"""
    w = 0
    for r in residuals:
        u = (((~r) << 1) | 1) if r < 0 else (r << 1)
        w = max(w, u.bit_length() - 1)
    return w


class Encoder(Model):
    """Model + bit writer: every method appends one command to the stream"""

    def __init__(self, version, ftype, nchan, blocksize, maxnlpc, nmean, skip=()):
        Model.__init__(self, version, ftype, nchan, blocksize, maxnlpc, nmean)
        self.w = BitWriter()
        self.blocks = []        # (chan, first sample index, length, command name, blocksize, bitshift)
        self.cmd_ends = []      # stream bit position after each command
        for v in (ftype, nchan, blocksize, maxnlpc, nmean, len(skip)):
            self.w.ulong_put(v)
        for b in skip:
            self.w.uvar_put(b, XBYTESIZE)
        self.header_end = self.w.n
        self.closed = False

    def copy(self):
        e = Encoder.__new__(Encoder)
        e.copy_state_from(self)
        e.w = self.w.copy()
        e.blocks = list(self.blocks)
        e.cmd_ends = list(self.cmd_ends)
        e.header_end = self.header_end
        e.closed = self.closed
        return e

    def _begin(self, fn):
        if self.closed:
            raise ModelError("command after QUIT")
        self.w.uvar_put(fn, FNSIZE)

    def _note(self, name):
        self.blocks.append((self.chan, len(self.out[self.chan]), self.blocksize, name,
                            self.blocksize, self.bitshift))

    def forced_targets(self, kind):
        """the samples a block must contain for ZERO / an all-zero DIFF1 residual"""
        v = 0 if kind == "ZERO" else self.hist[self.chan][-1]
        return [self.to_external(v)] * self.blocksize

    def diff(self, order, targets, width="min"):
        self.check_block_allowed(order)
        internal = [self.to_internal(x) for x in targets]
        if len(internal) != self.blocksize:
            raise ModelError("need %d targets" % self.blocksize)
        co = self.coffset()
        buf = list(self.hist[self.chan])
        res = []
        for v in internal:
            res.append(v - self.predict_diff(order, buf, co))
            buf.append(v)
        resn = minimal_width(res) if width == "min" else int(width)
        self._note("DIFF%d" % order)
        self._begin(order)
        self.w.uvar_put(resn, ENERGYSIZE)
        for r in res:
            self.w.var_put(r, resn)
        self.commit_block(internal)
        self.cmd_ends.append(self.w.n)

    def qlpc(self, coefs, targets, width="min"):
        self.check_block_allowed(FN_QLPC, len(coefs))
        internal = [self.to_internal(x) for x in targets]
        if len(internal) != self.blocksize:
            raise ModelError("need %d targets" % self.blocksize)
        co = self.coffset()
        centred = [h - co for h in self.hist[self.chan]]
        res = []
        for v in internal:
            res.append((v - co) - self.predict_qlpc(coefs, centred))
            centred.append(v - co)
        resn = minimal_width(res) if width == "min" else int(width)
        self._note("QLPC%d" % len(coefs))
        self._begin(FN_QLPC)
        self.w.uvar_put(resn, ENERGYSIZE)
        self.w.uvar_put(len(coefs), LPCQSIZE)
        for q in coefs:
            self.w.var_put(q, LPCQUANT)
        for r in res:
            self.w.var_put(r, resn)
        self.commit_block(internal)
        self.cmd_ends.append(self.w.n)

    def zero(self):
        self.check_block_allowed(FN_ZERO)
        self._note("ZERO")
        self._begin(FN_ZERO)
        self.commit_block([0] * self.blocksize)
        self.cmd_ends.append(self.w.n)

    def blocksize_cmd(self, b):
        self.set_blocksize(b)
        self._begin(FN_BLOCKSIZE)
        self.w.ulong_put(b)
        self.cmd_ends.append(self.w.n)

    def bitshift_cmd(self, s):
        self.set_bitshift(s)
        self._begin(FN_BITSHIFT)
        self.w.uvar_put(s, BITSHIFTSIZE)
        self.cmd_ends.append(self.w.n)

    def raw_command(self, code):
        """an arbitrary function code (fault injection)"""
        self._begin(code)
        self.cmd_ends.append(self.w.n)

    def quit(self):
        self.frames()
        self._begin(FN_QUIT)
        self.cmd_ends.append(self.w.n)
        self.closed = True

    def payload(self, version_byte=None):
        v = self.version if version_byte is None else version_byte
        return MAGIC + bytes([v & 0xFF]) + self.w.tobytes()

    def sphere_file(self, version_byte=None, rate=8000):
        return sphere_header(self.ftype, self.nchan, self.frames(), rate) + self.payload(version_byte)

    def block_of(self, chan, index):
        for b in self.blocks:
            if b[0] == chan and b[1] <= index < b[1] + b[2]:
                return b
        return None


def sphere_header(ftype, nchan, nsamples, rate=8000):
    if ftype in ULAW_TYPES:
        fields = [("sample_n_bytes", "-i", "1"), ("sample_byte_format", "-s1", "1"),
                  ("sample_sig_bits", "-i", "8"), ("sample_coding", "-s27", "ulaw,embedded-shorten-v2.00")]
    else:
        order = "10" if ftype == TYPE_S16HL else "01"
        fields = [("sample_n_bytes", "-i", "2"), ("sample_byte_format", "-s2", order),
                  ("sample_sig_bits", "-i", "16"), ("sample_coding", "-s26", "pcm,embedded-shorten-v2.00")]
    fields = [("channel_count", "-i", str(nchan)), ("sample_count", "-i", str(nsamples)),
              ("sample_rate", "-i", str(rate))] + fields
    text = "NIST_1A\n   1024\n" + "".join("%s %s %s\n" % f for f in fields) + "end_head\n"
    b = text.encode("ascii")
    return b + b" " * (1024 - len(b))


# ------------------------------------------------------------------ the model's own decoder


def decode_payload(data):
    """-> (Model after QUIT, stream bit position after QUIT); raises ModelError subclasses"""
    if data[:4] != MAGIC or len(data) < 5:
        raise ModelError("no shorten magic")
    version = data[4]
    r = BitReader(data[5:])
    ftype, nchan, blocksize, maxnlpc, nmean, nskip = [r.ulong_get() for _ in range(6)]
    for _ in range(nskip):
        r.uvar_get(XBYTESIZE)
    m = Model(version, ftype, nchan, blocksize, maxnlpc, nmean)
    while True:
        fn = r.uvar_get(FNSIZE)
        if fn == FN_QUIT:
            break
        if fn == FN_BLOCKSIZE:
            m.blocksize = r.ulong_get()
        elif fn == FN_BITSHIFT:
            m.bitshift = r.uvar_get(BITSHIFTSIZE)
        elif fn == FN_ZERO:
            m.commit_block([0] * m.blocksize)
        elif fn in (FN_DIFF0, FN_DIFF1, FN_DIFF2, FN_DIFF3):
            resn = r.uvar_get(ENERGYSIZE)
            co = m.coffset()
            buf = list(m.hist[m.chan])
            for _ in range(m.blocksize):
                buf.append(r.var_get(resn) + m.predict_diff(fn, buf, co))
            m.commit_block(buf[m.nwrap:])
        elif fn == FN_QLPC:
            resn = r.uvar_get(ENERGYSIZE)
            coefs = [0] * r.uvar_get(LPCQSIZE)
            for j in range(len(coefs)):
                coefs[j] = r.var_get(LPCQUANT)
            co = m.coffset()
            centred = [h - co for h in m.hist[m.chan]]
            for _ in range(m.blocksize):
                centred.append(r.var_get(resn) + m.predict_qlpc(coefs, centred))
            m.commit_block([v + co for v in centred[m.nwrap:]])
        else:
            raise ModelError("unknown command %d" % fn)
    return m, r.pos


def parse_sphere(filebytes):
    """minimal SPHERE header reader for the self test: -> (fields dict, payload)"""
    head = filebytes[:1024].decode("ascii", "replace").split("\n")
    if head[0] != "NIST_1A" or int(head[1]) != 1024:
        raise ModelError("not a 1024-byte SPHERE header")
    fields = {}
    for line in head[2:]:
        if line == "end_head":
            break
        k, t, v = line.split(" ", 2)
        fields[k] = int(v) if t == "-i" else v
    return fields, filebytes[1024:]


def expected_pcm(model):
    """what a reader that expands mu-law returns: per-channel lists of 16-bit values"""
    if model.ftype in ULAW_TYPES:
        return [[ulaw_expand(c) for c in ch] for ch in model.out]
    return [list(ch) for ch in model.out]


# ------------------------------------------------------------------ self test


def _read_wav(path):
    import wave

    with wave.open(path, "rb") as w:
        nch, width, n = w.getnchannels(), w.getsampwidth(), w.getnframes()
        raw = w.readframes(n)
    if width != 2:
        raise ModelError("reference wav is not 16-bit")
    vals = [int.from_bytes(raw[i:i + 2], "little", signed=True) for i in range(0, len(raw), 2)]
    return [vals[c::nch] for c in range(nch)]


def check_vectors(repo=None, only=None):
    """decode the sph2pipe vectors with the MODEL decoder; -> list of (name, ok, message)"""
    import glob

    repo = repo or os.environ.get("VERIF_REPO", "/repo")
    out = []
    for p in sorted(glob.glob(os.path.join(repo, "tests", "audio", "*_shn.sph"))):
        name = os.path.basename(p)[:-8]
        if only is not None and name != only:
            continue
        with open(p, "rb") as f:
            fields, payload = parse_sphere(f.read())
        m, _ = decode_payload(payload)
        got = expected_pcm(m)
        want = _read_wav(p[:-8] + ".wav")
        ok = got == want and m.frames() == fields["sample_count"] and m.nchan == fields["channel_count"]
        out.append((name, ok, "version %d type %d nmean %d blocksize %d maxnlpc %d" % (
            m.version, m.ftype, m.nmean, m.bs0, m.maxnlpc)))
    return out


def _selftest_values(c, t):
    return ((t * 7919 + c * 104729 + 13) * 2654435761 >> 7) % 4001 - 2000


def selftest():
    # 1. Rice coders, bit level, at every alignment
    for lead in range(0, 33, 3):
        w = BitWriter()
        w.bits(0, lead)
        items = []
        for nbin in range(0, 9):
            for v in list(range(0, 70)) + [255, 256, 1000]:
                w.uvar_put(v, nbin)
                items.append(("u", nbin, v))
                w.var_put(v, nbin)
                items.append(("s", nbin, v))
                w.var_put(-v - 1, nbin)
                items.append(("s", nbin, -v - 1))
        for v in [0, 1, 2, 3, 4, 7, 8, 255, 256, 65535, 65536, 10 ** 6]:
            w.ulong_put(v)
            items.append(("l", 0, v))
        r = BitReader(w.tobytes())
        for _ in range(lead):
            assert r.bit() == 0
        for kind, nbin, v in items:
            got = r.uvar_get(nbin) if kind == "u" else r.var_get(nbin) if kind == "s" else r.ulong_get()
            assert got == v, (kind, nbin, v, got)
        assert r.pos == w.n and r.nbits - r.pos < 32
    # known bit patterns
    w = BitWriter()
    w.uvar_put(9, 2)
    w.var_put(-3, 1)
    assert (w.acc, w.n) == (0b001010101, 9), bin(w.acc)
    # 2. mu-law ranking
    m0 = UlawMap.get(0)
    assert m0.inward[0x7F] == -1 and m0.inward[0xFF] == 0 and m0.inward[0x80] == 127
    assert m0.inward[0x00] == -128 and len(m0.inward) == 256
    assert ulaw_expand(0x00) == -32124 and ulaw_expand(0x80) == 32124 and ulaw_expand(0xFE) == 8
    for s in range(0, 5):
        mm = UlawMap.get(s)
        for c, v in mm.inward.items():
            assert mm.outward(v) == c
        vals = [ulaw_expand(mm.outward(v)) for v in range(-len(mm.neg) - 1, len(mm.pos))]
        assert vals == sorted(vals)
    # 3. encoder -> model decoder over every command pair, a few headers
    n = 0
    for version in (1, 2):
        for ftype in SUPPORTED_TYPES:
            for nchan, bs, nmean in ((1, 4, 0), (2, 4, 4), (3, 3, 1), (2, 5, 2)):
                for a in range(14):
                    for b in range(14):
                        e = Encoder(version, ftype, nchan, bs, 3, nmean)
                        try:
                            for k in (a, b, a, 3, 0):
                                _selftest_apply(e, k)
                            while e.chan:
                                _selftest_apply(e, 0)
                            e.quit()
                        except InvalidTrace:
                            continue
                        m, pos = decode_payload(e.payload())
                        assert m.out == e.out and pos == e.w.n, (version, ftype, nchan, a, b)
                        assert m.hist == e.hist and m.offs == e.offs
                        n += 1
    assert n > 3000, n
    # 4. the model decoder reads the real sph2pipe vectors
    res = check_vectors()
    assert len(res) == 6 and all(ok for _, ok, _ in res), res


def _selftest_apply(e, k):
    c, t0 = e.chan, len(e.out[e.chan])
    raw = [_selftest_values(c, t0 + i) for i in range(e.blocksize)]
    if e.ftype in ULAW_TYPES:
        mm = UlawMap.get(e.bitshift)
        tg = [mm.nearest(x & 0xFF) for x in raw]
        if e.ftype == TYPE_AU1:
            tg = [mm.pos[0] if t == mm.minus_zero else t for t in tg]
    else:
        tg = [(x >> e.bitshift) << e.bitshift for x in raw]
    if k < 4:
        e.diff(k, tg)
    elif k == 4:
        e.diff(1, e.forced_targets("DIFF1"), 0)
    elif k == 5:
        e.diff(1, tg, 5)
    elif k < 9:
        e.qlpc([[31], [31, -8], [11, 31, -8]][k - 6], tg)
    elif k == 9:
        e.zero()
    elif k < 12:
        e.blocksize_cmd((1, 3)[k - 10])
    else:
        e.bitshift_cmd((0, 2)[k - 12])


if __name__ == "__main__":
    selftest()
    print("shorten model selftest ok")
