"""Published mel / Bark formulas, re-implemented from the literature (no library import).

mel  : O'Shaughnessy 1987, m = 2595 log10(1 + f/700)  (= 1127.01 ln(1 + f/700); the
       library documents the 1127 ln form, the two differ by 9.3e-6 relative, and the
       check's tolerance admits either).
Bark : Traunmueller 1990, z = 26.81 f / (1960 + f) - 0.53, with the low / high end
       corrections  z < 2: z + 0.15 (2 - z);  z > 20.1: z + 0.22 (z - 20.1); inverse
       f = 1960 (z + 0.53) / (26.28 - z) after undoing the corrections.

Plain `math` on Python floats, one value at a time.
"""
import math

MEL_REL_TOL = 2e-5  # covers 1127 ln vs 2595 log10
BARK_BREAKS = (2.0, 20.1)


def mel_from_hz(f):
    return 2595.0 * math.log10(1.0 + f / 700.0)


def hz_from_mel(m):
    return 700.0 * (10.0 ** (m / 2595.0) - 1.0)


def bark_uncorrected(f):
    return 26.81 * f / (1960.0 + f) - 0.53


def bark_from_hz(f):
    z = bark_uncorrected(f)
    if z < 2.0:
        return z + 0.15 * (2.0 - z)
    if z > 20.1:
        return z + 0.22 * (z - 20.1)
    return z


def hz_from_bark(s):
    # undo the corrections: s = 0.85 z + 0.3  (z < 2);  s = 1.22 z - 4.422  (z > 20.1)
    if s < 2.0:
        z = (s - 0.3) / 0.85
    elif s > 20.1:
        z = (s + 4.422) / 1.22
    else:
        z = s
    return 1960.0 * (z + 0.53) / (26.28 - z)


def bark_break_hz():
    """pre-images of the two break-points, by bisection on the uncorrected map"""
    out = []
    for b in BARK_BREAKS:
        lo, hi = 0.0, 1e5
        for _ in range(200):
            mid = 0.5 * (lo + hi)
            if bark_uncorrected(mid) < b:
                lo = mid
            else:
                hi = mid
        out.append(hi)
    return out


def selftest():
    # anchor values from the literature
    assert abs(mel_from_hz(1000.0) - 1000.0) < 0.02
    assert abs(mel_from_hz(0.0)) == 0.0
    assert abs(1127.0 * math.log(1 + 4000 / 700.0) - mel_from_hz(4000.0)) < MEL_REL_TOL * 2200
    # Traunmueller's table: 100 Hz ~ 0.77 (uncorrected) , 1000 Hz ~ 8.53, 10 kHz ~ 21.89 uncorrected
    assert abs(bark_uncorrected(1000.0) - 8.527) < 2e-3
    assert abs(bark_uncorrected(10000.0) - 21.887) < 2e-3
    lo, hi = bark_break_hz()
    assert abs(lo - 204.23) < 0.01 and abs(hi - 6542.85) < 0.01, (lo, hi)
    # the closed-form inverse inverts the forward map, and both are continuous at the breaks
    for k in range(0, 400001, 37):
        f = 0.25 * k
        assert abs(hz_from_bark(bark_from_hz(f)) - f) <= 1e-9 * f + 1e-9, f
        assert abs(hz_from_mel(mel_from_hz(f)) - f) <= 1e-9 * f + 1e-9, f
    for b in (lo, hi):
        assert abs(bark_from_hz(b * (1 - 1e-13)) - bark_from_hz(b * (1 + 1e-13))) < 1e-10
    for s in BARK_BREAKS:
        assert abs(hz_from_bark(s * (1 - 1e-13)) - hz_from_bark(s * (1 + 1e-13))) < 1e-7
