"""ITU-T G.711 expansion (decoder side), written from the Recommendation's definition.

Both laws are *segmented*: an 8-bit character signal is polarity bit + 3-bit segment
number e + 4-bit interval number m, and the decoder output is the mid-point of the
quantisation interval the encoder's decision values delimit.

mu-law (G.711 Table 2a/2b).  Uniform code is 14 bits (|x| <= 8159).  Segment e starts at
decision value 32*2^e - 33 (-1 -> 0, 31, 95, 223, ... 4063) and has 16 intervals of width
2^(e+1), so interval m is [32*2^e - 33 + m*2^(e+1), ... + 2^(e+1)) with mid-point

    y(e, m) = (2m + 33) * 2^e - 33                      (0 .. 8031)

(the very first interval is cut to [0, 1) and its output value is 0, which the formula
also gives; the last decision value 8159 is virtual).  On the line all seven magnitude bits are inverted, polarity bit 1 =
positive: 0xFF is +0, 0x80 is +8031, 0x7F is -0, 0x00 is -8031.

A-law (G.711 Table 1a/1b).  Uniform code is 13 bits (|y| <= 4096).  Segments 0 and 1 both
have interval width 2 (starting at 0 and 32), segment e >= 2 starts at 2^(e+4) with width
2^e; mid-points

    y(0, m) = 2m + 1
    y(e, m) = (2m + 33) * 2^(e-1)        e >= 1          (1 .. 4032)

On the line the even bits are inverted (XOR 0x55), polarity bit 1 = positive: 0xD5 is +1,
0x55 is -1, 0xAA is +4032, 0x2A is -4032.

16-bit PCM: the 14-bit mu-law value is left-justified by 2 bits, the 13-bit A-law value by
3 bits (what every G.711 -> linear 16 converter, including sph2pipe, does).
"""
import numpy as np


def ulaw_value14(code):
    """14-bit uniform decoder output value of one mu-law character signal"""
    code = int(code)
    assert 0 <= code <= 255
    bits = code ^ 0x7F              # undo the inversion of the 7 magnitude bits
    positive = bool(bits & 0x80)
    e = (bits >> 4) & 7
    m = bits & 15
    y = (2 * m + 33) * (1 << e) - 33
    return y if positive else -y


def alaw_value13(code):
    """13-bit uniform decoder output value of one A-law character signal"""
    code = int(code)
    assert 0 <= code <= 255
    bits = code ^ 0x55              # undo the even-bit inversion
    positive = bool(bits & 0x80)
    e = (bits >> 4) & 7
    m = bits & 15
    y = 2 * m + 1 if e == 0 else (2 * m + 33) * (1 << (e - 1))
    return y if positive else -y


_TABLES = {}


def _table(law):
    """the 256 decoder output values as 16-bit PCM, tabulated once from the scalar definitions
    above (so that files of tens of thousands of samples can be expanded by indexing)"""
    if law not in _TABLES:
        if law == "ulaw":
            t = [4 * ulaw_value14(c) for c in range(256)]
        elif law == "alaw":
            t = [8 * alaw_value13(c) for c in range(256)]
        else:
            raise ValueError(law)
        _TABLES[law] = np.array(t, dtype=np.int16)
    return _TABLES[law]


def _lookup(law, codes):
    codes = np.asarray(codes)
    if codes.size and (int(codes.min()) < 0 or int(codes.max()) > 255):
        raise ValueError("G.711 character signals are 0..255")
    return _table(law)[codes.astype(np.int64)]


def ulaw_to_pcm16(codes):
    return _lookup("ulaw", codes)


def alaw_to_pcm16(codes):
    return _lookup("alaw", codes)


def expand(coding, codes):
    if coding == "ulaw":
        return ulaw_to_pcm16(codes)
    if coding == "alaw":
        return alaw_to_pcm16(codes)
    raise ValueError(coding)


# ----------------------------------------------------------------- self-test
# brute force: the *encoder* of the Recommendation, by decision values, on every input of
# the uniform code; the decoder output must lie in the interval that encodes back to the
# same character signal and be that interval's mid-point.


def _ulaw_encode14(x):
    """character signal for a 14-bit uniform value, by searching the decision values"""
    neg = x < 0
    a = min(abs(x), 8158)
    # segment e covers [32*2^e - 33, 64*2^e - 33), split in 16 intervals of 2^(e+1);
    # the first interval of segment 0 is cut at zero ([0,1) instead of [-1,1)).
    for e in range(8):
        lo = 32 * (1 << e) - 33
        hi = 64 * (1 << e) - 33
        if lo <= a < hi:
            m = (a - lo) // (1 << (e + 1))
            break
    else:
        raise AssertionError(a)
    bits = (e << 4) | m
    if not neg:
        bits |= 0x80
    return bits ^ 0x7F


def _alaw_encode13(x):
    neg = x < 0
    a = min(abs(x), 4095)
    if a < 32:
        e, m = 0, a // 2
    elif a < 64:
        e, m = 1, (a - 32) // 2
    else:
        for e in range(2, 8):
            lo = 1 << (e + 4)
            if lo <= a < 2 * lo:
                m = (a - lo) // (1 << e)
                break
        else:
            raise AssertionError(a)
    bits = (e << 4) | m
    if not neg:
        bits |= 0x80
    return bits ^ 0x55


def selftest():
    # anchors quoted in the Recommendation's tables
    assert ulaw_value14(0xFF) == 0 and ulaw_value14(0x7F) == 0
    assert ulaw_value14(0x80) == 8031 and ulaw_value14(0x00) == -8031
    assert ulaw_value14(0xFE) == 2 and ulaw_value14(0xEF) == 33 and ulaw_value14(0xF0) == 30
    assert alaw_value13(0xD5) == 1 and alaw_value13(0x55) == -1
    assert alaw_value13(0xAA) == 4032 and alaw_value13(0x2A) == -4032
    assert alaw_value13(0xC5) == 33 and alaw_value13(0xDA) == 31  # either side of the 0/1 segment border
    u = [ulaw_value14(c) for c in range(256)]
    a = [alaw_value13(c) for c in range(256)]
    # odd symmetry in the polarity bit, 255 / 256 distinct levels
    for c in range(128):
        assert u[c] == -u[c | 0x80] and a[c] == -a[c | 0x80]
    assert len(set(u)) == 255 and len(set(a)) == 256
    # encode(decode(c)) == c (the two mu-law zeros both decode to 0, which encodes as +0)
    for c in range(256):
        if c != 0x7F:
            assert _ulaw_encode14(u[c]) == c, (c, u[c], _ulaw_encode14(u[c]))
        assert _alaw_encode13(a[c]) == c, (c, a[c], _alaw_encode13(a[c]))
    # mid-point: the set of uniform values that encode to c is an interval centred on the output
    for enc, dec, top in ((_ulaw_encode14, u, 8158), (_alaw_encode13, a, 4095)):
        cells = {}
        for x in range(0, top + 1):
            cells.setdefault(enc(x), []).append(x)
        for c, xs in cells.items():
            lo, hi = xs[0], xs[-1] + 1
            assert xs == list(range(lo, hi))
            if dec is u and c == 0xFF:
                assert (lo, hi) == (0, 1) and dec[c] == 0
            elif dec is u and hi == top + 1:
                assert dec[c] == 8031
            else:
                assert 2 * dec[c] == lo + hi, (c, lo, hi, dec[c])
    # monotone in the magnitude code
    for dec in (u, a):
        pos = sorted(v for v in dec if v > 0)
        assert pos == sorted(set(pos))
    # second opinion where the platform offers one (libsndfile's own G.711 decoder)
    try:
        import io

        import soundfile as sf
    except Exception:
        sf = None
    if sf is not None:
        codes = bytes(range(256))
        for sub, fn in (("ULAW", ulaw_to_pcm16), ("ALAW", alaw_to_pcm16)):
            got, _ = sf.read(io.BytesIO(codes), format="RAW", subtype=sub, samplerate=8000,
                             channels=1, dtype="int16")
            assert np.array_equal(got, fn(np.arange(256))), sub
    # the tabulated expansion is the scalar definition, element by element, for any shape
    for fn, one, k in ((ulaw_to_pcm16, ulaw_value14, 4), (alaw_to_pcm16, alaw_value13, 8)):
        for codes in (np.arange(256), np.arange(255, -1, -1).reshape(64, 4), np.array([7]), np.zeros(0, int)):
            got = fn(codes)
            assert got.dtype == np.int16 and got.shape == codes.shape
            assert got.reshape(-1).tolist() == [k * one(c) for c in codes.reshape(-1)]
    assert ulaw_to_pcm16(np.arange(256)).min() == -32124
    assert alaw_to_pcm16(np.arange(256)).max() == 32256
    return True


if __name__ == "__main__":
    selftest()
    print("g711 selftest ok")
