"""Reference model of the STFT frame computer, from the documentation only.

Shares no code with pydrobert/speech/compute.py: full complex DFT (not rfft),
explicit reflection index map (not np.pad), filter responses rebuilt from
get_truncated_response by the docstring recipe.
"""
import numpy as np


def num_frames(N, L, S):
    return (N + S // 2) // S if N >= L // 2 + 1 else 0


def frame_start(k, L, S, style, kaldi):
    if style == "causal":
        return k * S
    if kaldi:
        return k * S - L // 2 + S // 2
    return k * S - (L + 1) // 2 + 1


def reflect_index(i, N):
    """iterated symmetric reflection (x[-1] = x[0], x[N] = x[N-1], period 2N)"""
    j = i % (2 * N)
    return j if j < N else 2 * N - 1 - j


def frame(x, k, L, S, style, kaldi):
    N = len(x)
    s = frame_start(k, L, S, style, kaldi)
    return np.array([x[reflect_index(i, N)] for i in range(s, s + L)], dtype=np.float64)


class OutOfRecipe(Exception):
    pass


def rebuild_full(bin_idx, trnc, width, is_real):
    """the recipe in LinearFilterBank.get_truncated_response's docstring"""
    trnc = np.asarray(trnc)
    if is_real:
        full = np.zeros(width, dtype=np.complex128)
        if bin_idx + len(trnc) > width // 2 + 1:
            raise OutOfRecipe("real truncated response leaves the half spectrum")
        full[bin_idx:bin_idx + len(trnc)] = trnc
        lo = width - bin_idx - len(trnc) + 1
        mirror = trnc[:None if bin_idx else 0:-1].conj()
        full[lo:lo + len(mirror)] = mirror
        return full
    if len(trnc) > width:
        raise OutOfRecipe("truncated response longer than the DFT")
    full = np.zeros(width, dtype=np.complex128)
    wrap = min(bin_idx + len(trnc), width) - bin_idx
    full[bin_idx:bin_idx + wrap] = trnc[:wrap]
    full[:len(trnc) - wrap] = trnc[wrap:]
    return full


def compute_full(x, bank, L, S, D, window, style, kaldi, use_log, use_power, include_energy,
                 log_floor):
    x = np.asarray(x, dtype=np.float64)
    N = len(x)
    nf = num_frames(N, L, S)
    H = [rebuild_full(*bank.get_truncated_response(i, D), width=D, is_real=bank.is_real)
         for i in range(bank.num_filts)]
    ncoef = bank.num_filts + int(include_energy)
    out = np.zeros((nf, ncoef))
    p = 2 if use_power else 1
    for k in range(nf):
        fr = frame(x, k, L, S, style, kaldi)
        X = np.fft.fft(fr * window, D)
        col = 0
        if include_energy:
            e = float(np.mean(fr ** 2))
            if not use_power:
                e = e ** 0.5
            out[k, 0] = np.log(max(e, log_floor)) if use_log else e
            col = 1
        for i, h in enumerate(H):
            v = float(np.sum(np.abs(X * h) ** p))
            out[k, col + i] = np.log(max(v, log_floor)) if use_log else v
    return out


def selftest():
    # reflection map equals numpy's symmetric padding
    for N in range(1, 6):
        x = np.arange(N, dtype=float)
        for lp in range(0, 3 * N + 1):
            for rp in range(0, 3 * N + 1):
                want = np.pad(x, (lp, rp), "symmetric")
                got = np.array([x[reflect_index(i, N)] for i in range(-lp, N + rp)])
                assert np.array_equal(want, got), (N, lp, rp)
