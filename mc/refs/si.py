"""Reference model of the short-integration computer: plain np.convolve.

No overlap-save, no ring buffers: the zero-extended signal is convolved with each
clamped impulse response and the window-weighted 2S-sample spans are summed.
"""
import numpy as np


def geometry(bank, S, style, pad):
    sup = bank.supports
    if style == "centered":
        M = max(r - l for l, r in sup)
        tr = M // 2
    else:
        tr = max([0] + [-l for l, _ in sup])
        M = max([0] + [r for _, r in sup]) + tr
    L = M + S - 1
    minbw = min(r - l for l, r in bank.supports_hz)
    D = max(L, int(np.ceil(2 * bank.sampling_rate / minbw)))
    if pad:
        D = int(2 ** np.ceil(np.log2(D)))
    return M, tr, L, D


def impulse_responses(bank, S, style, pad, include_energy):
    M, tr, L, D = geometry(bank, S, style, pad)
    gs = []
    if include_energy:
        g = np.zeros(M, dtype=np.complex128)
        if tr < M:
            g[tr] = 1
        gs.append(g)
    for i in range(bank.num_filts):
        h = np.asarray(bank.get_impulse_response(i, D))
        if style == "centered":
            l, r = bank.supports[i]
            off = tr - (l + r) // 2 + 1
        else:
            off = tr
        g = np.array([h[(n - off) % D] for n in range(M)], dtype=np.complex128)
        gs.append(g)
    return gs, M, tr, D


def compute_full(x, bank, S, style, pad, window, use_log, use_power, include_energy, log_floor):
    x = np.asarray(x, dtype=np.float64)
    N = len(x)
    gs, M, tr, D = impulse_responses(bank, S, style, pad, include_energy)
    nf = (N + S // 2) // S
    out = np.zeros((nf, len(gs)))
    p = 2 if use_power else 1
    w = np.asarray(window, dtype=np.float64)
    assert len(w) == 2 * S
    for i, g in enumerate(gs):
        c = np.convolve(x.astype(np.complex128), g) if N else np.zeros(0, dtype=np.complex128)
        a = np.abs(c) ** p
        for k in range(nf):
            start = (tr if style == "causal" else tr - S) + k * S
            v = 0.0
            for j in range(2 * S):
                n = start + j
                if 0 <= n < len(a):
                    v += w[j] * a[n]
            out[k, i] = v
    if use_log:
        out = np.log(np.maximum(out, log_floor))
    return out, D
