"""Reference models of the post-processors (Deltas, Stack, Standardize), from the documentation.

Shares no code with pydrobert/speech/post.py and is deliberately boring:

* Deltas: the Kaldi delta recursion (scales built by the nested loops of Kaldi's
  DeltaFeatures, one output sample = explicit sum over the context), edges extended by an
  explicit index map / fill rule per padding mode (no np.pad, no np.correlate, no
  np.convolve), every 1-D slice along `axis` visited by explicit index loops, the result
  laid out by explicit slab assignment (no np.concatenate / np.stack).
* Stack: explicit loops over (other indices, output frame, vector-in-run, coefficient).
* Standardize: two-pass mean / population variance, (x - mean) / sqrt(var).

Everything is computed in float64 and cast to the requested dtype at the very end.
"""
import itertools

import numpy as np

PAD_MODES = ("edge", "constant", "reflect", "symmetric", "wrap", "mean", "maximum", "minimum",
             "linear_ramp")


# ------------------------------------------------------------------ Deltas


def delta_scales(num_deltas, window):
    """Kaldi: scales[0] = [1]; scales[i] = scales[i-1] (*) (j / sum j^2, j=-W..W)."""
    scales = [[1.0]]
    for i in range(1, num_deltas + 1):
        prev = scales[i - 1]
        prev_offset = (len(prev) - 1) // 2
        cur_offset = prev_offset + window
        cur = [0.0] * (len(prev) + 2 * window)
        normalizer = 0.0
        for j in range(-window, window + 1):
            normalizer += j * j
            for k in range(-prev_offset, prev_offset + 1):
                cur[j + k + cur_offset] += float(j) * prev[k + prev_offset]
        scales.append([c / normalizer for c in cur])
    return scales


def extended(v, i, mode, pad, constant_values=0.0, end_values=0.0):
    """value of the length-n vector v (list of floats), extended by `pad` samples on both
    sides according to `mode`, at index i in [-pad, n + pad)"""
    n = len(v)
    if 0 <= i < n:
        return v[i]
    if mode == "edge":
        return v[0] if i < 0 else v[n - 1]
    if mode == "constant":
        return float(constant_values)
    if mode == "reflect":  # ... v2 v1 | v0 v1 v2 ... vn-1 | vn-2 ...   period 2(n-1)
        if n == 1:
            return v[0]
        p = 2 * (n - 1)
        j = i % p
        return v[j] if j < n else v[p - j]
    if mode == "symmetric":  # ... v1 v0 | v0 v1 ... vn-1 | vn-1 vn-2 ...  period 2n
        p = 2 * n
        j = i % p
        return v[j] if j < n else v[p - 1 - j]
    if mode == "wrap":
        return v[i % n]
    if mode == "mean":
        s = 0.0
        for a in v:
            s += a
        return s / n
    if mode == "maximum":
        m = v[0]
        for a in v:
            if a > m:
                m = a
        return m
    if mode == "minimum":
        m = v[0]
        for a in v:
            if a < m:
                m = a
        return m
    if mode == "linear_ramp":  # from the edge value to end_values at distance `pad`
        if i < 0:
            k, e = -i, v[0]
        else:
            k, e = i - (n - 1), v[n - 1]
        return e + (float(end_values) - e) * (float(k) / float(pad))
    raise ValueError("unknown mode %r" % (mode,))


def delta_1d(v, scale, mode, pad_fn=None, **kw):
    """one regression-filtered copy of the vector v (list of floats).  pad_fn (instead of a mode name):
    pad_fn(1-D float64 array, (before, after)) -> the 1-D extended vector, for padding rules that are defined
    by numpy.pad itself (keyword variants, callables): the rule is then applied to THIS vector alone"""
    off = (len(scale) - 1) // 2
    ext = None
    if pad_fn is not None:
        ext = [float(a) for a in pad_fn(np.array(v, dtype=np.float64), (off, off))]
        if len(ext) != len(v) + 2 * off or ext[off:off + len(v)] != [float(a) for a in v]:
            raise ValueError("pad_fn did not extend the vector by (%d, %d)" % (off, off))
    out = []
    for t in range(len(v)):
        s = 0.0
        for j in range(-off, off + 1):
            s += scale[j + off] * (ext[t + j + off] if ext is not None else extended(v, t + j, mode, off, **kw))
        out.append(s)
    return out


def _other_indices(shape, axis):
    return itertools.product(*[range(n) if a != axis else (None,) for a, n in enumerate(shape)])


def delta_orders(x, max_order, window, axis, mode, pad_fn=None, **kw):
    """[x, delta x, delta delta x, ...] as float64 arrays of x's shape, filtered along axis"""
    x = np.asarray(x)
    axis = axis % x.ndim
    n = x.shape[axis]
    scales = delta_scales(max_order, window)
    outs = [np.zeros(x.shape, dtype=np.float64) for _ in range(max_order + 1)]
    for idx in _other_indices(x.shape, axis):
        v = []
        for t in range(n):
            full = tuple(t if a == axis else idx[a] for a in range(x.ndim))
            v.append(float(x[full]))
        for d in range(max_order + 1):
            w = v if d == 0 else delta_1d(v, scales[d], mode, pad_fn=pad_fn, **kw)
            for t in range(n):
                full = tuple(t if a == axis else idx[a] for a in range(x.ndim))
                outs[d][full] = w[t]
    return outs


def deltas_shape(shape, num_deltas, target_axis, concatenate):
    shape = list(shape)
    if concatenate:
        ta = target_axis % len(shape)
        shape[ta] *= num_deltas + 1
    else:
        ta = target_axis % (len(shape) + 1)
        shape.insert(ta, num_deltas + 1)
    return tuple(shape)


def deltas_layout(blocks, target_axis, concatenate):
    """blocks: arrays of one shape and dtype, in order (input, delta, delta-delta ...)"""
    shape = blocks[0].shape
    nd = len(blocks) - 1
    out = np.zeros(deltas_shape(shape, nd, target_axis, concatenate), dtype=blocks[0].dtype)
    if concatenate:
        ta = target_axis % len(shape)
        n = shape[ta]
        for d, b in enumerate(blocks):
            sl = [slice(None)] * len(shape)
            sl[ta] = slice(d * n, (d + 1) * n)
            out[tuple(sl)] = b
    else:
        ta = target_axis % (len(shape) + 1)
        for d, b in enumerate(blocks):
            sl = [slice(None)] * (len(shape) + 1)
            sl[ta] = d
            out[tuple(sl)] = b
    return out


def deltas_apply(x, num_deltas, window, axis, target_axis, concatenate, mode, **kw):
    """returns (float64 result before the final cast, result in x's dtype)"""
    x = np.asarray(x)
    orders = delta_orders(x, num_deltas, window, axis, mode, **kw)
    f = deltas_layout(orders, target_axis, concatenate)
    blocks = [x] + [o.astype(x.dtype) for o in orders[1:]]
    return f, deltas_layout(blocks, target_axis, concatenate)


# ------------------------------------------------------------------ Stack


def stack_apply(x, num_vectors, time_axis, axis, pad_mode=None, constant_values=0, pad_fn=None):
    """pad_fn (with pad_mode "fn"): pad_fn(1-D array of x's dtype: ONE whole vector along the time axis,
    (0, missing)) -> that vector extended on the right to the next multiple of num_vectors - the padding rule
    sees the whole time axis, never the incomplete run alone"""
    x = np.asarray(x)
    ta, fa = time_axis % x.ndim, axis % x.ndim
    if ta == fa:
        raise ValueError("time and feature axes coincide")
    T, F = x.shape[ta], x.shape[fa]
    if pad_mode is None:
        nT = T // num_vectors
    else:
        nT = (T + num_vectors - 1) // num_vectors
    shape = list(x.shape)
    shape[ta], shape[fa] = nT, F * num_vectors
    out = np.zeros(shape, dtype=x.dtype)
    others = [a for a in range(x.ndim) if a not in (ta, fa)]
    for rest in itertools.product(*[range(x.shape[a]) for a in others]):
        whole = {}
        if pad_mode == "fn" and nT * num_vectors > T:
            for f in range(F):
                src = [0] * x.ndim
                for a, i in zip(others, rest):
                    src[a] = i
                src[fa], src[ta] = f, slice(None)
                vec = np.array(x[tuple(src)])
                ext = np.asarray(pad_fn(np.array(vec), (0, nT * num_vectors - T)))
                if ext.shape != (nT * num_vectors,) or ext.dtype != x.dtype or \
                        ext[:T].tobytes() != vec.tobytes():
                    raise ValueError("pad_fn did not extend the vector on the right")
                whole[f] = ext
        for r in range(nT):
            for v in range(num_vectors):
                t = r * num_vectors + v
                for f in range(F):
                    src = [0] * x.ndim
                    dst = [0] * x.ndim
                    for a, i in zip(others, rest):
                        src[a] = dst[a] = i
                    dst[ta], dst[fa] = r, v * F + f
                    src[fa] = f
                    if t < T:
                        src[ta] = t
                        val = x[tuple(src)]
                    elif pad_mode == "fn":
                        val = whole[f][t]
                    elif pad_mode == "edge":
                        src[ta] = T - 1
                        val = x[tuple(src)]
                    elif pad_mode == "constant":
                        val = constant_values
                    else:
                        raise ValueError("unsupported pad_mode %r" % (pad_mode,))
                    out[tuple(dst)] = val
    return out


# ------------------------------------------------------------------ Standardize


def mean_var(vectors):
    """two-pass mean and population variance per coefficient of a list of equal-length vectors"""
    n = len(vectors)
    F = len(vectors[0])
    mean = [0.0] * F
    for v in vectors:
        for f in range(F):
            mean[f] += float(v[f])
    mean = [m / n for m in mean]
    var = [0.0] * F
    for v in vectors:
        for f in range(F):
            d = float(v[f]) - mean[f]
            var[f] += d * d
    var = [s / n for s in var]
    return np.array(mean), np.array(var)


def vectors_of(x, axis):
    """every 1-D slice of x along axis, as a list of float lists"""
    x = np.asarray(x)
    if x.ndim == 1:
        return [[float(a) for a in x]]
    axis = axis % x.ndim
    out = []
    for idx in _other_indices(x.shape, axis):
        out.append([float(x[tuple(t if a == axis else idx[a] for a in range(x.ndim))])
                    for t in range(x.shape[axis])])
    return out


def standardize(x, mean, var, axis, norm_var):
    x = np.asarray(x)
    out = np.zeros(x.shape, dtype=np.float64)
    if x.ndim == 1:
        for f in range(x.shape[0]):
            d = float(x[f]) - mean[f]
            out[f] = d / np.sqrt(var[f]) if norm_var else d
        return out
    axis = axis % x.ndim
    for full in itertools.product(*[range(n) for n in x.shape]):
        f = full[axis]
        d = float(x[full]) - mean[f]
        out[full] = d / np.sqrt(var[f]) if norm_var else d
    return out


# ------------------------------------------------------------------ selftest


def selftest():
    # delta scales: published Kaldi values for window 2
    s = delta_scales(2, 2)
    assert np.allclose(s[1], np.array([-2, -1, 0, 1, 2]) / 10.0)
    assert np.allclose(s[2], np.array([4, 4, 1, -4, -10, -4, 1, 4, 4]) / 100.0)
    assert np.allclose(delta_scales(1, 1)[1], [-0.5, 0.0, 0.5])
    # a linear ramp has delta == slope away from the edges, delta-delta == 0
    v = [3.0 * t + 1 for t in range(12)]
    for W in (1, 2, 3):
        sc = delta_scales(2, W)
        d1 = delta_1d(v, sc[1], "edge")
        d2 = delta_1d(v, sc[2], "edge")
        assert np.allclose(d1[W:-W], 3.0)
        assert np.allclose(d2[2 * W:-2 * W], 0.0)
    # extension rules against hand-written expansions
    v = [1.0, 2.0, 3.0]
    idx = range(-5, 8)
    hand = {
        "edge": [1, 1, 1, 1, 1, 1, 2, 3, 3, 3, 3, 3, 3],
        "constant": [0, 0, 0, 0, 0, 1, 2, 3, 0, 0, 0, 0, 0],
        "reflect": [2, 1, 2, 3, 2, 1, 2, 3, 2, 1, 2, 3, 2],
        "symmetric": [2, 3, 3, 2, 1, 1, 2, 3, 3, 2, 1, 1, 2],
        "wrap": [2, 3, 1, 2, 3, 1, 2, 3, 1, 2, 3, 1, 2],
        "mean": [2, 2, 2, 2, 2, 1, 2, 3, 2, 2, 2, 2, 2],
        "maximum": [3, 3, 3, 3, 3, 1, 2, 3, 3, 3, 3, 3, 3],
        "minimum": [1, 1, 1, 1, 1, 1, 2, 3, 1, 1, 1, 1, 1],
        "linear_ramp": [0, 0.2, 0.4, 0.6, 0.8, 1, 2, 3, 2.4, 1.8, 1.2, 0.6, 0],
    }
    for mode, want in hand.items():
        got = [extended(v, i, mode, 5) for i in idx]
        assert np.allclose(got, want), (mode, got, want)
    assert [extended([7.0], i, "reflect", 3) for i in range(-3, 4)] == [7.0] * 7
    # brute force: delta == dot product of an explicitly extended vector with the scale
    v = [0.5, -1.0, 4.0, 2.5, 2.0]
    sc = delta_scales(3, 2)
    for d in (1, 2, 3):
        off = (len(sc[d]) - 1) // 2
        ext = [v[min(max(i, 0), len(v) - 1)] for i in range(-off, len(v) + off)]
        want = [sum(sc[d][k] * ext[t + k] for k in range(len(sc[d]))) for t in range(len(v))]
        assert np.allclose(delta_1d(v, sc[d], "edge"), want)
    # layout
    x = np.arange(6.0).reshape(2, 3)
    f, out = deltas_apply(x, 1, 1, 1, 0, True, "edge")
    assert out.shape == (4, 3) and np.array_equal(out[:2], x)
    assert np.allclose(out[2], [0.5, 1.0, 0.5])
    f, out = deltas_apply(x, 2, 1, 0, -1, False, "edge")
    assert out.shape == (2, 3, 3) and np.array_equal(out[..., 0], x)
    assert np.allclose(out[..., 1], 1.5)
    assert deltas_shape((2, 3), 2, -3, False) == (3, 2, 3)
    # Stack: the documented 3-D example (5 frames of 2x2, pairs of frames, edge padded)
    buff = np.arange(20).reshape(5, 2, 2)
    exp = np.array([[[0, 1, 4, 5], [2, 3, 6, 7]], [[8, 9, 12, 13], [10, 11, 14, 15]],
                    [[16, 17, 16, 17], [18, 19, 18, 19]]])
    assert np.array_equal(stack_apply(buff, 2, 0, -1, "edge"), exp)
    assert np.array_equal(stack_apply(buff, 2, 0, -1, None), exp[:2])
    b2 = np.arange(30).reshape(10, 3)
    assert np.array_equal(stack_apply(b2, 3, 0, 1), b2[:9].reshape(3, 9))
    assert np.array_equal(stack_apply(b2.T, 3, 1, 0), b2[:9].reshape(3, 9).T)
    assert stack_apply(b2[:2], 3, 0, 1).shape == (0, 9)
    assert np.array_equal(stack_apply(b2[:2], 3, 0, 1, "constant", 7),
                          [[0, 1, 2, 3, 4, 5, 7, 7, 7]])
    # pad_fn: the rule sees one whole vector; against the explicit extension rules above
    b3 = np.arange(30.0).reshape(5, 3, 2) ** 2 % 17
    for mode in ("edge", "reflect", "symmetric", "wrap", "mean", "maximum", "minimum"):
        for nv in (2, 3, 4):
            got = stack_apply(b3, nv, 0, 1, "fn", pad_fn=lambda v, w, m=mode: np.pad(v, w, m))
            k = -(-5 // nv) * nv - 5
            for f in range(3):
                for c in range(2):
                    vec = [float(a) for a in b3[:, f, c]]
                    for t in range(5, 5 + k):
                        assert np.isclose(got[t // nv, (t % nv) * 3 + f, c],
                                          extended(vec, t, mode, k)), (mode, nv, f, c, t)
    v = [0.5, -1.0, 4.0, 2.5, 2.0]
    sc = delta_scales(2, 2)
    for mode in ("edge", "reflect", "wrap", "mean"):
        for d in (1, 2):
            assert np.allclose(delta_1d(v, sc[d], mode),
                               delta_1d(v, sc[d], None, pad_fn=lambda a, w, m=mode: np.pad(a, w, m)))
    # mean / variance / standardisation
    vs = [[1.0, -2.0], [3.0, -8.0], [8.0, 1.0]]
    m, var = mean_var(vs)
    assert np.allclose(m, np.mean(vs, 0)) and np.allclose(var, np.var(vs, 0))
    z = standardize(np.array(vs), m, var, 1, True)
    assert np.allclose(z.mean(0), 0) and np.allclose(z.var(0), 1)
    z = standardize(np.array(vs).T, m, var, 0, False)
    assert np.allclose(z.mean(1), 0) and np.allclose(z.var(1), var)
    assert vectors_of(np.array(vs).T, 0) == vs
    assert vectors_of(np.array(vs).reshape(3, 2, 1), 1) == vs
