"""Reference model of the documented filter-bank layout (C05, C06, C07).

Shares no code with pydrobert/speech/filters.py or scales.py: the scale formulas are taken
from the literature, the layout / bandwidth rules from the class docstrings, and the
"rebuild" recipe from LinearFilterBank.get_truncated_response's docstring.  Everything is
plain Python / NumPy and boring on purpose.

Scales (a layout is invariant under positive affine maps of the scale, so constants that
only rescale it - 2595*log10 vs 1127*ln - are irrelevant here):

  mel     O'Shaughnessy 1987     m = 2595 log10(1 + f/700)
  bark    Traunmueller 1990      z = 26.81 f/(1960+f) - 0.53, with the two end corrections
  octave                         s = log2(f / f_ref)
  linear                         s = (f - f_ref) * slope

Layout (class docstrings): nf+2 vertices uniform in the scale between low and high for the
triangular banks (filter i = vertices i, i+1, i+2); for Gabor / gammatone nf+1 edges at
half-steps, filter i between edges i and i+1, centre in the middle (in Hz).
"""
import math

import numpy as np

# ------------------------------------------------------------------ scales


def hz_to_scale(scale, f):
    name = scale["name"]
    if name == "mel":
        return 2595.0 * math.log10(1.0 + f / 700.0)
    if name == "bark":
        z = 26.81 * f / (1960.0 + f) - 0.53
        if z < 2.0:
            z = z + 0.15 * (2.0 - z)
        elif z > 20.1:
            z = z + 0.22 * (z - 20.1)
        return z
    if name == "octave":
        return math.log2(f / scale["low_hz"])
    if name == "linear":
        return (f - scale.get("low_hz", 0.0)) * scale.get("slope_hz", 1.0)
    raise KeyError(name)


def scale_to_hz(scale, s):
    name = scale["name"]
    if name == "mel":
        return 700.0 * (10.0 ** (s / 2595.0) - 1.0)
    if name == "bark":
        # undo the end corrections: s = 0.85 z + 0.3 (z < 2), s = 1.22 z - 4.422 (z > 20.1)
        if s < 2.0:
            z = (s - 0.3) / 0.85
        elif s > 20.1:
            z = (s + 4.422) / 1.22
        else:
            z = s
        # z + 0.53 = 26.81 f / (1960 + f)
        return 1960.0 * (z + 0.53) / (26.81 - 0.53 - z)
    if name == "octave":
        return scale["low_hz"] * 2.0 ** s
    if name == "linear":
        return s / scale.get("slope_hz", 1.0) + scale.get("low_hz", 0.0)
    raise KeyError(name)


def norm_scale(scale):
    if isinstance(scale, str):
        scale = {"name": scale}
    scale = dict(scale)
    if scale["name"] == "octave":
        scale.setdefault("low_hz", 20.0)
    if scale["name"] == "linear":
        scale.setdefault("low_hz", 0.0)
    return scale


# ------------------------------------------------------------------ layout


def vertices(scale, low_hz, high_hz, nf):
    """nf + 2 points uniform in the scale domain, end points included"""
    scale = norm_scale(scale)
    a = hz_to_scale(scale, low_hz)
    b = hz_to_scale(scale, high_hz)
    return [scale_to_hz(scale, a + (b - a) * j / (nf + 1.0)) for j in range(nf + 2)]


def edges(scale, low_hz, high_hz, nf):
    """nf + 1 intersection points at half steps of the same uniform grid"""
    scale = norm_scale(scale)
    a = hz_to_scale(scale, low_hz)
    b = hz_to_scale(scale, high_hz)
    return [scale_to_hz(scale, a + (b - a) * (j + 0.5) / (nf + 1.0)) for j in range(nf + 1)]


def layout(kind, scale, low_hz, high_hz, nf, rate):
    """-> dict(centers=[...], edges=[(lo, hi) per filter]) in Hz.  high_hz None = Nyquist."""
    if high_hz is None:
        high_hz = rate / 2.0
    if kind in ("tri", "fbank"):
        if kind == "fbank":
            scale = "mel"
        v = vertices(scale, low_hz, high_hz, nf)
        return dict(centers=v[1:-1], edges=[(v[i], v[i + 2]) for i in range(nf)])
    e = edges(scale, low_hz, high_hz, nf)
    return dict(centers=[(e[i] + e[i + 1]) / 2.0 for i in range(nf)],
                edges=[(e[i], e[i + 1]) for i in range(nf)])


def range_is_valid(low_hz, high_hz, rate):
    """True / False where the property decides, None where it leaves the answer open"""
    nyq = rate / 2.0
    if low_hz < 0:
        return False
    if high_hz is None:
        return True
    if high_hz > 0 and high_hz <= low_hz:
        return False
    if high_hz > nyq + 1.0:
        return False
    if high_hz <= 0 or high_hz > nyq:
        return None  # non-positive high, or within (Nyquist, Nyquist + 1]: left open
    return True


# ------------------------------------------------------------------ documented responses


def bin_hz(k, width, rate):
    """signed frequency of DFT bin k (bins above width/2 are negative frequencies)"""
    return rate * k / width if 2 * k <= width else rate * (k - width) / width


def triangle(f, left, mid, right):
    if f <= left or f >= right:
        return 0.0
    if f <= mid:
        return (f - left) / (mid - left)
    return (right - f) / (right - mid)


def tri_response(width, rate, left, mid, right, analytic):
    """documented triangle, linear in Hz, at every DFT bin (Hermitian unless analytic)"""
    out = np.zeros(width)
    for k in range(width):
        f = bin_hz(k, width, rate)
        if f < 0:
            if analytic:
                continue
            f = -f
        out[k] = triangle(f, left, mid, right)
    return out


def fbank_response_sq(width, rate, left, mid, right, analytic):
    """documented Fbank response *squared*: a triangle in mel (compare squares: the square
    root amplifies last-bit differences at the foot of the triangle)"""
    mel = {"name": "mel"}
    lm, mm, rm = (hz_to_scale(mel, x) for x in (left, mid, right))
    out = np.zeros(width)
    for k in range(width):
        f = bin_hz(k, width, rate)
        if f < 0:
            if analytic:
                continue
            f = -f
        out[k] = triangle(hz_to_scale(mel, f), lm, mm, rm)
    return out


# ------------------------------------------------------------------ docstring recipes


def half_len(width):
    return width // 2 + 1 if width % 2 == 0 else (width + 1) // 2


class OutOfRecipe(Exception):
    pass


def rebuild_full(bin_idx, trnc, width, is_real):
    """LinearFilterBank.get_truncated_response docstring, literally"""
    trnc = np.asarray(trnc)
    full = np.zeros(width, dtype=np.complex128)
    n = len(trnc)
    if is_real:
        if bin_idx + n > width // 2 + 1:
            raise OutOfRecipe("real truncated response leaves the half spectrum")
        full[bin_idx:bin_idx + n] = trnc
        rev = trnc[:None if bin_idx else 0:-1].conj()
        lo = width - bin_idx - n + 1
        hi = min(width - bin_idx + 1, width)
        if hi - lo != len(rev):
            raise OutOfRecipe("mirror slice has %d slots for %d values" % (hi - lo, len(rev)))
        full[lo:hi] = rev
        return full
    if n > width:
        raise OutOfRecipe("truncated response (%d) longer than the DFT (%d)" % (n, width))
    wrap = min(bin_idx + n, width) - bin_idx
    full[bin_idx:bin_idx + wrap] = trnc[:wrap]
    full[:n - wrap] = trnc[wrap:]
    return full


# ------------------------------------------------------------------ documented bandwidth rules


def ang(hz, rate):
    return 2.0 * math.pi * hz / rate


def gabor_sigma(edge_lo, edge_hi, rate, erb):
    """std (samples) of the Gaussian exp(-sigma^2 (w - xi)^2 / 2)

    erb=False: |H|^2 is 3 dB (10^-0.3) down at the edges, half the spacing from the centre
    erb=True : integral of |H|^2 / max|H|^2 = sqrt(pi)/sigma equals the spacing"""
    d = ang(edge_hi - edge_lo, rate) / 2.0
    if erb:
        return math.sqrt(math.pi) / (2.0 * d)
    return math.sqrt(0.3 * math.log(10.0)) / d


def gammatone_alpha(edge_lo, edge_hi, rate, order, erb):
    """alpha of |H|^2 = (1 + (w - xi)^2 / alpha^2)^-n (peak normalised)

    erb=False: |H|^2 = 1/2 at the edges
    erb=True : integral = alpha sqrt(pi) Gamma(n - 1/2) / Gamma(n) equals the spacing"""
    w = ang(edge_hi - edge_lo, rate)
    if erb:
        return w * math.gamma(order) / (math.sqrt(math.pi) * math.gamma(order - 0.5))
    return (w / 2.0) / math.sqrt(2.0 ** (1.0 / order) - 1.0)


def gabor_peak(sigma, l2):
    """max |H|: 1, or with unit L2 norm of f(t) = C sigma^-1/2 pi^-1/4 exp(-t^2/2sigma^2): sqrt(2 sigma) pi^1/4"""
    return math.sqrt(2.0 * sigma) * math.pi ** 0.25 if l2 else 1.0


def gammatone_peak(alpha, order, l2):
    """max |H| = c (n-1)! / alpha^n, with c from int |c t^(n-1) e^(-alpha t)|^2 dt = 1 when l2"""
    if not l2:
        return 1.0
    c = math.sqrt((2.0 * alpha) ** (2 * order - 1) / math.factorial(2 * order - 2))
    return c * math.factorial(order - 1) / alpha ** order


def ideal_span_hz(kind, edge_lo, edge_hi, rate, eps, erb=False, l2=False, order=4):
    """width (Hz) of the region where the *documented* response exceeds eps"""
    if kind == "gabor":
        s = gabor_sigma(edge_lo, edge_hi, rate, erb)
        p = gabor_peak(s, l2)
        if p <= eps:
            return 0.0
        d = math.sqrt(2.0 * math.log(p / eps)) / s
    else:
        a = gammatone_alpha(edge_lo, edge_hi, rate, order, erb)
        p = gammatone_peak(a, order, l2)
        if p <= eps:
            return 0.0
        d = a * math.sqrt((p / eps) ** (2.0 / order) - 1.0)
    return 2.0 * d * rate / (2.0 * math.pi)


def ideal_time_extent(kind, edge_lo, edge_hi, rate, erb=False, order=4, max_centered=False,
                      rel=1e-10):
    """(neg, pos): samples before / after t = 0 beyond which the documented envelope is below
    rel * its maximum.  Only used to size measurement buffers."""
    if kind == "gabor":
        s = gabor_sigma(edge_lo, edge_hi, rate, erb)
        t = int(math.ceil(s * math.sqrt(-2.0 * math.log(rel)))) + 2
        return t, t
    a = gammatone_alpha(edge_lo, edge_hi, rate, order, erb)
    n = order
    x = float(max(n - 1, 1))
    if n == 1:
        f = lambda y: math.exp(-y)  # noqa: E731
    else:
        f = lambda y: (y / (n - 1.0)) ** (n - 1) * math.exp(-(y - (n - 1.0)))  # noqa: E731
    while f(x) > rel:
        x += 1.0
    shift = (n - 1.0) / a if max_centered else 0.0
    return int(math.ceil(shift)) + 2, int(math.ceil(x / a - shift)) + 2


# ------------------------------------------------------------------ measurement helpers


def unwrap_times(width, neg):
    """sample times of a circular buffer whose last `neg` entries are negative times"""
    t = np.arange(width, dtype=np.float64)
    if neg:
        t[width - neg:] -= width
    return t


def dtft(h, t, freqs_hz, rate):
    """sum_t h[t] exp(-i 2 pi f t / rate) at arbitrary frequencies (no FFT, no aliasing)"""
    freqs_hz = np.asarray(freqs_hz, dtype=np.float64)
    ph = np.exp(-2j * np.pi * np.outer(freqs_hz, t) / rate)
    return ph @ np.asarray(h, dtype=np.complex128)


def inside_hz(f, lo, hi, rate, real):
    """is frequency f inside [lo, hi] modulo rate (or its mirror image, for real filters)?"""
    def _in(a, b):
        # exists integer m with a <= f + m rate <= b
        m = math.ceil((a - f) / rate)
        return f + m * rate <= b
    return _in(lo, hi) or (real and _in(-hi, -lo))


def inside_samples(width, left, right):
    """boolean mask of buffer indices covered by [left, right] modulo width"""
    mask = np.zeros(width, dtype=bool)
    if right - left + 1 >= width:
        mask[:] = True
        return mask
    for t in range(left, right + 1):
        mask[t % width] = True
    return mask


# ------------------------------------------------------------------ self-test


def _integrate(fn, lo, hi, n=400001):
    x = np.linspace(lo, hi, n)
    y = fn(x)
    return float(np.sum((y[1:] + y[:-1]) / 2.0) * (x[1] - x[0]))


def selftest():
    # scales: inverse pairs, monotone, continuous at the bark break points
    grid = [0.0, 1.0, 19.9, 20.0, 100.0, 250.0, 271.3, 700.0, 1000.0, 3999.0, 7000.0, 7600.0, 8000.0]
    for sc in ({"name": "mel"}, {"name": "bark"}, {"name": "octave", "low_hz": 20.0},
               {"name": "linear", "low_hz": 0.0}, {"name": "linear", "low_hz": 10.0, "slope_hz": 0.5}):
        prev = None
        for f in grid:
            if sc["name"] == "octave" and f <= 0:
                continue
            s = hz_to_scale(sc, f)
            assert abs(scale_to_hz(sc, s) - f) <= 1e-9 * max(1.0, f), (sc, f)
            assert prev is None or s > prev, (sc, f)
            prev = s
    bk = {"name": "bark"}
    for z0 in (2.0, 20.1):  # continuity of both branches of the inverse at the break points
        assert abs(scale_to_hz(bk, z0 - 1e-12) - scale_to_hz(bk, z0 + 1e-12)) < 1e-6
    assert abs(hz_to_scale({"name": "mel"}, 1000.0) - 1000.0) < 0.05  # 1000 mel == 1000 Hz
    assert abs(hz_to_scale(bk, 1000.0) - 8.53) < 0.01  # Traunmueller: 1 kHz ~ 8.5 Bark

    # layout: uniform in the scale, end points exact, edges are the half-way points
    for sc in ("mel", "bark", {"name": "octave", "low_hz": 20.0}, "linear"):
        n = norm_scale(sc)
        v = vertices(sc, 20.0, 4000.0, 5)
        s = [hz_to_scale(n, x) for x in v]
        d = [b - a for a, b in zip(s, s[1:])]
        assert max(d) - min(d) < 1e-9 * max(1.0, abs(s[-1])), sc
        assert abs(v[0] - 20.0) < 1e-9 and abs(v[-1] - 4000.0) < 1e-6
        e = edges(sc, 20.0, 4000.0, 5)
        for j in range(6):
            assert abs(hz_to_scale(n, e[j]) - (s[j] + s[j + 1]) / 2.0) < 1e-9 * max(1.0, abs(s[-1]))
    lay = layout("gabor", "linear", 0.0, None, 3, 1000)
    assert np.allclose(lay["centers"], [125.0, 250.0, 375.0]) and np.allclose(lay["edges"][0], (62.5, 187.5))
    lay = layout("tri", "linear", 0.0, 400.0, 3, 1000)
    assert np.allclose(lay["centers"], [100.0, 200.0, 300.0]) and np.allclose(lay["edges"][2], (200.0, 400.0))

    # range rule
    assert range_is_valid(0.0, None, 1000) is True and range_is_valid(-1e-9, None, 1000) is False
    assert range_is_valid(20.0, 20.0, 1000) is False and range_is_valid(20.0, 19.0, 1000) is False
    assert range_is_valid(0.0, 501.5, 1000) is False and range_is_valid(0.0, 500.5, 1000) is None
    assert range_is_valid(0.0, 500.0, 1000) is True and range_is_valid(0.0, 0.0, 1000) is None

    # triangles
    assert triangle(150.0, 100.0, 200.0, 400.0) == 0.5 and triangle(300.0, 100.0, 200.0, 400.0) == 0.5
    assert triangle(200.0, 100.0, 200.0, 400.0) == 1.0 and triangle(100.0, 100.0, 200.0, 400.0) == 0.0
    r = tri_response(8, 800.0, 50.0, 200.0, 350.0, False)
    assert np.allclose(r, [0, 1 / 3, 1, 1 / 3, 0, 1 / 3, 1, 1 / 3])
    r = tri_response(7, 700.0, 50.0, 200.0, 350.0, True)
    assert np.allclose(r, [0, 1 / 3, 1, 1 / 3, 0, 0, 0])

    # rebuild recipe against brute force: a known spectrum cut into (start, truncated)
    for width in (5, 8, 9):
        spec = np.zeros(width, dtype=np.complex128)
        pos = {1: 1 + 2j, 2: 3 - 1j}
        for k, v in pos.items():
            spec[k] = v
            spec[-k] = np.conj(v)
        got = rebuild_full(1, np.array([1 + 2j, 3 - 1j]), width, True)
        assert np.array_equal(got, spec), width
        # complex, wrapping over the end
        spec = np.arange(1, width + 1).astype(np.complex128)
        spec[1:width - 2] = 0
        got = rebuild_full(width - 2, np.array([width - 1, width, 1], dtype=np.complex128), width, False)
        assert np.array_equal(got, spec), width
    got = rebuild_full(0, np.array([5.0, 1.0, 2.0]), 6, True)  # starts at DC: DC is not mirrored
    assert np.array_equal(got, np.array([5, 1, 2, 0, 2, 1], dtype=np.complex128))
    assert [half_len(w) for w in (2, 3, 4, 5, 8, 9)] == [2, 2, 3, 3, 5, 5]

    # bandwidth rules against numerical integration (brute force)
    rate = 8000.0
    lo, hi = 900.0, 1100.0
    w = ang(hi - lo, rate)
    for erb in (False, True):
        s = gabor_sigma(lo, hi, rate, erb)
        p2 = lambda x: np.exp(-(s * x) ** 2)  # noqa: E731  |H|^2 around the centre
        if erb:
            assert abs(_integrate(p2, -40 / s, 40 / s) - w) < 1e-6 * w
        else:
            assert abs(p2(w / 2) - 10 ** -0.3) < 1e-12
        for n in (1, 2, 3, 4, 6):
            a = gammatone_alpha(lo, hi, rate, n, erb)
            q2 = lambda x: (1.0 + (x / a) ** 2) ** -n  # noqa: E731
            if erb:
                if n > 1:  # n = 1 is a Lorentzian; its tails converge too slowly to brute-force
                    assert abs(_integrate(q2, -3000 * a, 3000 * a, 2000001) - w) < 2e-3 * w, (n, erb)
                else:
                    assert abs(a * math.pi - w) < 1e-12  # closed form: integral = pi alpha
            else:
                assert abs(q2(w / 2) - 0.5) < 1e-12
    # unit-L2 peaks: time-domain energy of the documented impulse responses
    s = gabor_sigma(lo, hi, rate, False)
    c = gabor_peak(s, True) / (math.sqrt(2 * s) * math.pi ** 0.25)  # the docstring's C
    e = _integrate(lambda t: (c * s ** -0.5 * math.pi ** -0.25 * np.exp(-t ** 2 / (2 * s * s))) ** 2,
                   -12 * s, 12 * s)
    assert abs(e - 1) < 1e-6
    for n in (1, 2, 4, 6):
        a = gammatone_alpha(lo, hi, rate, n, False)
        cc = gammatone_peak(a, n, True) * a ** n / math.factorial(n - 1)
        e = _integrate(lambda t: (cc * t ** (n - 1) * np.exp(-a * t)) ** 2, 0.0, 80.0 / a)
        assert abs(e - 1) < 1e-5, n
    # ideal span: response at the span edge equals eps
    eps = 5e-4
    sp = ideal_span_hz("gammatone", lo, hi, rate, eps, order=4)
    a = gammatone_alpha(lo, hi, rate, 4, False)
    assert abs((1 + (ang(sp / 2, rate) / a) ** 2) ** -2.0 - eps) < 1e-9
    sp = ideal_span_hz("gabor", lo, hi, rate, eps)
    s = gabor_sigma(lo, hi, rate, False)
    assert abs(math.exp(-(s * ang(sp / 2, rate)) ** 2 / 2) - eps) < 1e-9
    # time extents really are below rel
    neg, pos = ideal_time_extent("gammatone", lo, hi, rate, order=4, max_centered=True)
    x = a * (pos + 3.0 / a)
    assert (x / 3.0) ** 3 * math.exp(-(x - 3.0)) < 1e-9 and neg >= 3.0 / a

    # dtft against the FFT on the bin frequencies; unwrapping of negative times
    h = np.array([1.0, 2.0, -1.0, 0.5, 0.25, 3.0], dtype=np.complex128)
    t = unwrap_times(6, 2)
    assert list(t) == [0, 1, 2, 3, -2, -1]
    got = dtft(h, t, [k * 100.0 / 6 for k in range(6)], 100.0)
    assert np.allclose(got, np.fft.fft(h))
    # inside_hz: modulo the rate, mirrored for real filters
    assert inside_hz(10.0, -5.0, 12.0, 100.0, False) and inside_hz(97.0, -5.0, 12.0, 100.0, False)
    assert not inside_hz(50.0, -5.0, 12.0, 100.0, False)
    assert inside_hz(90.0, 5.0, 12.0, 100.0, True) and not inside_hz(90.0, 5.0, 12.0, 100.0, False)
    m = inside_samples(10, -2, 3)
    assert list(np.nonzero(m)[0]) == [0, 1, 2, 3, 8, 9]
    assert inside_samples(4, -2, 3).all()
