"""Reference standard-normal quantile: bisection on the LOWER tail only.

Phi(z) = 0.5 erfc(-z / sqrt 2).  For z <= 0 the argument of erfc is >= 0, where math.erfc has
full relative accuracy down to 1e-300, so bisection on  Phi(z) = q  (q <= 0.5) is accurate to
the width of the final bracket.  The upper tail is obtained by symmetry,
quantile(1 - q) = -quantile(q); bisecting p near 1 directly loses everything to cancellation
in erfc (DESIGN 3/C20).
"""
import math

SQRT2 = math.sqrt(2.0)


def lower_cdf(z):
    """Phi(z), accurate for z <= 0"""
    return 0.5 * math.erfc(-z / SQRT2)


def lower_quantile(q):
    """z <= 0 with Phi(z) = q, for 0 < q <= 0.5"""
    if not 0.0 < q <= 0.5:
        raise ValueError("lower_quantile is defined for 0 < q <= 0.5")
    lo, hi = -40.0, 0.0  # Phi(-40) ~ 1e-350 underflows to 0 < q ; Phi(0) = 0.5 >= q
    for _ in range(200):
        mid = 0.5 * (lo + hi)
        if lower_cdf(mid) < q:
            lo = mid
        else:
            hi = mid
        if hi - lo < 1e-15:
            break
    return 0.5 * (lo + hi)


def selftest():
    # published values of the normal quantile
    table = {
        0.5: 0.0,
        0.025: -1.959963984540054,
        0.05: -1.6448536269514722,
        0.001: -3.090232306167813,
        1e-10: -6.361340902404056,
        1e-20: -9.262340089798408,
    }
    for q, z in table.items():
        assert abs(lower_quantile(q) - z) < 1e-12, (q, lower_quantile(q), z)
    # brute force: the returned z brackets q
    for e in range(1, 21):
        q = 10.0 ** -e
        z = lower_quantile(q)
        assert lower_cdf(z - 1e-12) < q < lower_cdf(z + 1e-12), q
