"""Shared machinery: sub-check protocol, parallel enumeration, findings, evidence.

A property module (mc/props/cXX.py) exposes

    LEVEL = "model_checking" | "exploration" | "fault_enumeration"
    def subchecks(tier, seed) -> list[SubCheck]

A SubCheck enumerates a finite list of *points* (JSON-able descriptions of a
lattice point, a configuration to explore exhaustively, a kill index ...) and
evaluates each one against the real implementation.  Evaluating a point
returns a dict (see `result()`); every violation carries

    tags   - small structural descriptor; what known_findings.json matches on
    detail - human-readable expected-vs-observed summary
    case   - JSON-able minimal reproduction (defaults to the point); handed
             to SubCheck.replay by `./check <id> --replay <file>`

Nothing here samples: `points` lists are enumerated completely, in order, and
sharded by index over worker processes.
"""
import hashlib
import json
import multiprocessing
import os
import sys
import time
import traceback

HERE = os.path.dirname(os.path.dirname(os.path.abspath(__file__)))
REPO = os.environ.get("VERIF_REPO", "/repo")
NPROC = int(os.environ.get("VERIF_NPROC", "0")) or min(16, os.cpu_count() or 1)


def setup_repo_path():
    src = os.path.join(REPO, "src")
    if src not in sys.path:
        sys.path.insert(0, src)
    return src


def result(viol=(), nontrivial=True, obs=None, **extra):
    """Outcome of evaluating one point.

    viol       : list of violation dicts (tags, detail, case?)
    nontrivial : did this point exercise the property by the sub-check's rule
    obs        : hashable summary of the observation (vacuity counter)
    extra      : states / transitions / impl_calls / capped / skipped / sample ...
    """
    d = {"viol": list(viol), "nontrivial": bool(nontrivial), "obs": obs}
    d.update(extra)
    return d


def violation(tags, detail, case=None):
    return {"tags": dict(tags), "detail": str(detail)[:2000], "case": case}


class HarnessError(Exception):
    """The harness itself is inconsistent (never reported as a VIOLATION)."""


class SubCheck:
    """name, rule (what is enumerated / what makes a point non-trivial),
    points (list), fn (point -> result dict), replay (case -> result dict)."""

    def __init__(self, name, points, fn, rule, axes=None, replay=None, chunk=None,
                 exhaustive=True, serial=False, kind="lattice"):
        self.name = name
        self.points = list(points)
        self.fn = fn
        self.rule = rule
        self.axes = axes or {}
        self.replay = replay or fn
        self.chunk = chunk
        self.exhaustive = exhaustive
        self.serial = serial
        self.kind = kind


# ---------------------------------------------------------------- pool

_WORK = {}


def _run_chunk(args):
    key, lo, hi = args
    sc = _WORK[key]
    out = []
    for i in range(lo, hi):
        p = sc.points[i]
        try:
            r = sc.fn(p)
        except HarnessError as e:
            r = {"harness_error": "%s: %s" % (sc.name, e), "point": p}
        except Exception:
            # an exception escaping a sub-check is a harness bug, not a verdict:
            # sub-checks catch what the implementation may legitimately raise.
            r = {"harness_error": "%s: uncaught %s" % (sc.name, traceback.format_exc()),
                 "point": p}
        if isinstance(r, dict):
            r["_chunk_lo"] = lo
        out.append((i, r))
    return out


def run_subcheck(sc, nproc=None):
    """Evaluate every point of sc; returns list of results in point order."""
    nproc = nproc or NPROC
    n = len(sc.points)
    if n == 0:
        return []
    key = sc.name
    _WORK[key] = sc
    if sc.serial or nproc == 1 or n == 1:
        res = _run_chunk((key, 0, n))
    else:
        chunk = sc.chunk or max(1, min(256, n // (nproc * 8) or 1))
        jobs = [(key, lo, min(n, lo + chunk)) for lo in range(0, n, chunk)]
        ctx = multiprocessing.get_context("fork")
        # one freshly forked child per chunk: process-level state left behind by the implementation
        # (module-level caches, globals) cannot travel further than the chunk it arose in, and a
        # violation that depends on it can be replayed by re-running the chunk's earlier points
        with ctx.Pool(min(nproc, len(jobs)), maxtasksperchild=1) as pool:
            res = []
            for part in pool.imap(_run_chunk, jobs):
                res.extend(part)
    res.sort(key=lambda t: t[0])
    del _WORK[key]
    return [r for _, r in res]


# ---------------------------------------------------------------- findings


def load_findings(prop):
    path = os.path.join(HERE, "known_findings.json")
    if not os.path.exists(path):
        return []
    with open(path) as f:
        data = json.load(f)
    return [e for e in data.get("findings", []) if e.get("property") == prop]


def _match_one(spec, val):
    """spec is a literal (equality) or {"in": [...]} / {"lt": x} / {"ge": x}."""
    if isinstance(spec, dict):
        if "in" in spec:
            return val in spec["in"]
        if "lt" in spec:
            return val is not None and val < spec["lt"]
        if "ge" in spec:
            return val is not None and val >= spec["ge"]
        return False
    return spec == val


def match_finding(findings, sub, tags):
    for e in findings:
        if e.get("status") != "open":
            continue  # a fixed entry suppresses nothing
        if e.get("check") not in (None, sub):
            continue
        m = e.get("match", {})
        if all(k in tags and _match_one(v, tags[k]) for k, v in m.items()):
            return e
    return None


# ---------------------------------------------------------------- values


def jsonable(x):
    import numpy as np

    if isinstance(x, dict):
        return {str(k): jsonable(v) for k, v in x.items()}
    if isinstance(x, (list, tuple)):
        return [jsonable(v) for v in x]
    if isinstance(x, np.ndarray):
        return jsonable(x.tolist())
    if isinstance(x, (np.integer,)):
        return int(x)
    if isinstance(x, (np.floating,)):
        return float(x)
    if isinstance(x, (np.bool_,)):
        return bool(x)
    if isinstance(x, complex):
        return [x.real, x.imag]
    if isinstance(x, bytes):
        return x.hex()
    if x is None or isinstance(x, (str, int, float, bool)):
        return x
    return repr(x)


def sig_hash(obj):
    return hashlib.sha1(json.dumps(jsonable(obj), sort_keys=True).encode()).hexdigest()[:12]


class Timer:
    def __init__(self):
        self.t0 = time.time()

    def __call__(self):
        return time.time() - self.t0
