"""Deterministic data values (DESIGN 2.4): a fixed function of (seed, absolute index)."""
import numpy as np


def signal(seed, n, dtype=np.float64, offset=0):
    """Standard normal draws from PCG64(seed) + 1e-3*t; prefix-stable in n."""
    g = np.random.Generator(np.random.PCG64(int(seed) + 7919 * offset))
    x = g.standard_normal(int(n)) + 1e-3 * np.arange(int(n))
    return x.astype(dtype)


def ro(x):
    """read-only copy"""
    y = np.array(x, copy=True)
    y.setflags(write=False)
    return y


def rov(x):
    """read-only VIEW (keeps the memory layout: strides, offset)"""
    y = x.view()
    y.setflags(write=False)
    return y
