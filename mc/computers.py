"""Canonical states, dead-region poisoning and snapshots of real FrameComputers (DESIGN 2.3)."""
import copy
import types

import numpy as np

_SKIP_TYPES = (types.FunctionType, types.BuiltinFunctionType, types.ModuleType, type,
               property, classmethod, staticmethod, types.MethodType)


def _round_sig(a, bits=40):
    """arrays rounded to `bits` significant bits (about 12 decimal digits)"""
    a = np.asarray(a, dtype=np.float64)
    m, e = np.frexp(a)
    with np.errstate(invalid="ignore"):
        mi = np.where(np.isfinite(m), np.round(m * float(2 ** bits)), -1.0)
    return (mi.astype(np.int64).tobytes(), e.astype(np.int32).tobytes(),
            np.isnan(a).tobytes())


def canon_value(v, depth=0, rounded=False):
    if isinstance(v, np.ndarray):
        if rounded and v.dtype.kind == "f":
            return ("ndr", v.shape) + _round_sig(v)
        return ("nd", v.dtype.str, v.shape, v.tobytes())
    if isinstance(v, (bool, int, float, complex, str, bytes, type(None))):
        return v
    if isinstance(v, np.generic):
        return ("g", v.dtype.str, v.tobytes())
    if isinstance(v, (list, tuple)):
        return tuple(canon_value(x, depth + 1) for x in v)
    if isinstance(v, (set, frozenset)):
        return tuple(sorted(repr(x) for x in v))
    if isinstance(v, dict):
        return tuple(sorted((repr(k), canon_value(x, depth + 1)) for k, x in v.items()))
    if isinstance(v, np.dtype):
        return ("dtype", v.str)
    if isinstance(v, _SKIP_TYPES):
        return ("fn", getattr(v, "__qualname__", repr(type(v))))
    if hasattr(v, "__dict__") and depth < 4:
        return (type(v).__qualname__,) + tuple(
            (k, canon_value(x, depth + 1)) for k, x in sorted(vars(v).items()))
    return ("repr", repr(v))


def class_state(cls):
    """non-callable class attributes (a scratch buffer hoisted to class scope shows up here)"""
    out = []
    for k in cls.__mro__:
        if k.__module__.startswith("pydrobert"):
            for name, v in sorted(vars(k).items()):
                if name.startswith("__") or isinstance(v, _SKIP_TYPES) or callable(v):
                    continue
                if name in ("_abc_impl", "aliases"):
                    continue
                out.append((k.__qualname__, name, canon_value(v, 1)))
    return tuple(out)


def module_state():
    """mutable module-level data of pydrobert.speech.compute / config"""
    from pydrobert.speech import compute, config

    out = []
    for mod in (compute, config):
        for name, v in sorted(vars(mod).items()):
            if name.startswith("__") or isinstance(v, _SKIP_TYPES) or callable(v):
                continue
            if isinstance(v, (np.ndarray, list, dict, set, int, float, bool)):
                out.append((mod.__name__, name, canon_value(v, 1)))
    return tuple(out)


def is_si(comp):
    return hasattr(comp, "_y_buf")


def poison(comp):
    """Overwrite regions declared dead with NaN / absurd values.  If the
    implementation reads one, the oracle sees NaN or a crash: a wrong mask can
    only produce a violation, never a silent merge."""
    try:
        if is_si(comp):
            if not comp._started:
                comp._x_buf.fill(np.nan)
                comp._y_buf.fill(np.nan)
                comp._x_rem = comp._y_rem = comp._skip = -(10 ** 6)
        elif hasattr(comp, "_buf") and hasattr(comp, "_buf_len"):
            L = len(comp._buf)
            if 0 <= comp._buf_len <= L:
                comp._buf[: L - comp._buf_len] = np.nan
            if hasattr(comp, "_hist") and hasattr(comp, "_hist_len"):
                # tail history kept for finalize: only the last _hist_len entries are live
                H = len(comp._hist)
                if 0 <= comp._hist_len <= H:
                    comp._hist[: H - comp._hist_len] = np.nan
    except AttributeError:
        pass  # refactored code: mask disabled, full state hashed (over-fine, sound)


def canon(comp):
    d = vars(comp)
    items = []
    si = is_si(comp)
    for k in sorted(d):
        v = d[k]
        if k in ("_bank", "_truncated_filts", "_filt_start_idxs", "_filts", "_window"):
            continue  # configuration, constant per exploration; verified by static_digest
        items.append((k, canon_value(v, 1, rounded=(si and k == "_y_buf"))))
    return (tuple(items), class_state(type(comp)), module_state())


def static_digest(comp):
    """digest of the configuration attributes skipped by canon(); compared before and
    after an exploration so that a mutation of them cannot go unnoticed."""
    d = vars(comp)
    return hash(tuple((k, canon_value(d[k], 0)) for k in
                      ("_truncated_filts", "_filt_start_idxs", "_filts", "_window",
                       "_bank") if k in d))


def clone(comp):
    return copy.deepcopy(comp)


def call(fn, *a):
    """call the real method, mapping exceptions to an observable"""
    try:
        return ("ok", fn(*a))
    except Exception as e:  # the oracle decides whether this is legitimate
        return ("exc", type(e).__name__, str(e)[:200])
