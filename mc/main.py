"""Driver: ./check <ID> [--tier quick|thorough] [--replay FILE] [--only SUB] [--list]"""
import argparse
import importlib
import json
import os
import subprocess
import sys

from . import core

MAX_REPORT = 25


def _load(prop):
    core.setup_repo_path()
    # imported once in the parent (never CALLED here): every chunk runs in a freshly forked child
    for m in ("numpy", "pydrobert.speech.config", "pydrobert.speech.scales", "pydrobert.speech.filters",
              "pydrobert.speech.compute", "pydrobert.speech.pre", "pydrobert.speech.post",
              "pydrobert.speech.util"):
        try:
            importlib.import_module(m)
        except Exception:
            pass  # a tree that does not import is reported by the sub-checks themselves
    return importlib.import_module("mc.props.%s" % prop.lower())


def _write_replay(prop, sub, tier, seed, v, point, prefix=None):
    case = v.get("case")
    if case is None:
        case = point
    doc = {
        "property": prop,
        "check": sub,
        "tier": tier,
        "seed": seed,
        "tags": v["tags"],
        "detail": v["detail"],
        "case": core.jsonable(case),
        # fallback for violations that depend on process-level state left by earlier points of the
        # same chunk (one fresh child per chunk): re-evaluate points lo..index in order
        "prefix": prefix,
    }
    h = core.sig_hash([prop, sub, v["tags"], doc["case"]])
    d = os.environ.get("VERIF_REPLAY_DIR") or os.path.join(core.HERE, "replays")
    os.makedirs(d, exist_ok=True)
    path = os.path.join(d, "%s-%s.json" % (prop, h))
    with open(path, "w") as f:
        json.dump(doc, f, indent=1, sort_keys=True)
    return path


def _confirm(prop, path):
    """Replay twice in fresh processes; both must reproduce, identically."""
    outs = []
    for _ in range(2):
        p = subprocess.run(
            [os.path.join(core.HERE, "check"), prop, "--replay", path, "--quiet"],
            capture_output=True, text=True)
        last = (p.stdout.strip().splitlines() or [""])[-1]
        outs.append((p.returncode, last.split(" detail_digest=")[0]))
    return outs


def do_replay(prop, path, quiet=False):
    with open(path) as f:
        doc = json.load(f)
    mod = _load(prop)
    seed = int(doc.get("seed", 0))
    scs = mod.subchecks(doc.get("tier", "quick"), seed, only=doc["check"]) \
        if _accepts_only(mod) else mod.subchecks(doc.get("tier", "quick"), seed)
    sc = [s for s in scs if s.name == doc["check"]]
    if not sc:
        print("HARNESS-ERROR: no sub-check %r" % doc["check"])
        return 2
    r = sc[0].replay(doc["case"])
    if "harness_error" in r:
        print("HARNESS-ERROR: %s" % r["harness_error"])
        return 2
    want = core.sig_hash(doc["tags"])
    same = [v for v in r["viol"] if core.sig_hash(v["tags"]) == want]
    if not same and doc.get("prefix") and doc.get("tier") and not quiet_prefix_disabled():
        # not reproducible in isolation: replay the history the point had in its chunk
        pf = doc["prefix"]
        pts = sc[0].points
        if 0 <= pf["lo"] <= pf["index"] < len(pts):
            rr = None
            for i in range(pf["lo"], pf["index"] + 1):
                try:
                    rr = sc[0].fn(pts[i])
                except Exception as e:  # noqa
                    rr = {"viol": []}
            hist = [v for v in (rr or {}).get("viol", []) if core.sig_hash(v["tags"]) == want]
            if hist:
                same = hist
                r = rr
                if not quiet:
                    print("(reproduced only together with the %d earlier point(s) of its chunk: the "
                          "violation depends on process-level state)" % (pf["index"] - pf["lo"]))
    if not quiet:
        print("replaying %s / %s" % (prop, doc["check"]))
        print("case: %s" % json.dumps(doc["case"])[:1500])
        for v in r["viol"]:
            print("  violation tags=%s\n    %s" % (json.dumps(v["tags"], sort_keys=True), v["detail"]))
    viol = same or r["viol"]
    if viol:
        # digest: structural signature only (what the confirm step compares); detail_digest also
        # covers the numbers, which may legitimately vary when a defect reads uninitialised memory
        print("REPLAY property=%s reproduced=yes same_signature=%s digest=%s detail_digest=%s" % (
            prop, "yes" if same else "no",
            core.sig_hash(sorted(core.sig_hash(v["tags"]) for v in viol)),
            core.sig_hash([[v["tags"], v["detail"]] for v in viol])))
        return 1
    print("REPLAY property=%s reproduced=no" % prop)
    return 0


def quiet_prefix_disabled():
    return os.environ.get("VERIF_NO_PREFIX_REPLAY") == "1"


def _accepts_only(mod):
    import inspect

    return "only" in inspect.signature(mod.subchecks).parameters


def main(argv):
    ap = argparse.ArgumentParser(prog="check")
    ap.add_argument("prop")
    ap.add_argument("--tier", default=os.environ.get("VERIF_TIER", "quick"),
                    choices=["quick", "thorough"])
    ap.add_argument("--replay")
    ap.add_argument("--quiet", action="store_true")
    ap.add_argument("--only", help="run only the named sub-check (evidence not written)")
    ap.add_argument("--list", action="store_true")
    ap.add_argument("--no-confirm", action="store_true")
    a = ap.parse_args(argv)
    prop = a.prop.upper()
    seed = int(os.environ.get("VERIF_SEED", "0") or 0)
    if a.replay:
        return do_replay(prop, a.replay, a.quiet)
    timer = core.Timer()
    mod = _load(prop)
    scs = mod.subchecks(a.tier, seed)
    if a.list:
        for s in scs:
            print("%-28s %7d points  %s" % (s.name, len(s.points), s.kind))
        return 0
    if a.only:
        scs = [s for s in scs if s.name in a.only.split(",")]
    findings = core.load_findings(prop)
    level = mod.LEVEL

    tot = dict(evaluations=0, nontrivial=0, states=0, transitions=0, impl=0)
    per_sub = {}
    samples = []
    groups = {}     # (sub, taghash) -> dict(first violation, point, count)
    harness_errors = []
    exhaustive = True
    caps = []
    for sc in scs:
        t_sub = core.Timer()
        res = core.run_subcheck(sc)
        ev = nt = st = tr = im = 0
        obs = set()
        nviol = 0
        for pidx, (p, r) in enumerate(zip(sc.points, res)):
            if "harness_error" in r:
                harness_errors.append(r["harness_error"])
                continue
            e = int(r.get("evals", 1))
            ev += e
            nt += int(r.get("nontrivial_count", e if r["nontrivial"] else 0))
            st += int(r.get("states", 0))
            tr += int(r.get("transitions", 0))
            im += int(r.get("impl_calls", r.get("transitions", e)))
            if r.get("obs") is not None:
                if isinstance(r["obs"], (list, set, tuple)) and r.get("obs_is_set"):
                    obs.update(r["obs"])
                else:
                    obs.add(json.dumps(core.jsonable(r["obs"]), sort_keys=True))
            if r.get("capped"):
                exhaustive = False
                caps.append("%s: %s" % (sc.name, r["capped"]))
            if r.get("sample") is not None and len(samples) < 40 and \
                    sum(1 for s in samples if s["check"] == sc.name) < 3:
                samples.append({"check": sc.name, "case": core.jsonable(r["sample"])})
            for v in r["viol"]:
                nviol += 1
                k = (sc.name, core.sig_hash(v["tags"]))
                g = groups.get(k)
                if g is None:
                    groups[k] = dict(v=v, point=p, count=1, sub=sc.name, index=pidx,
                                     lo=r.get("_chunk_lo", pidx))
                else:
                    g["count"] += 1
        if not sc.exhaustive:
            exhaustive = False
            caps.append("%s: declared non-exhaustive" % sc.name)
        if sum(1 for s in samples if s["check"] == sc.name) == 0 and sc.points:
            samples.append({"check": sc.name, "case": core.jsonable(sc.points[len(sc.points) // 2])})
        per_sub[sc.name] = dict(
            kind=sc.kind, points=len(sc.points), evaluations=ev, nontrivial=nt,
            states=st, transitions=tr, impl_calls=im, distinct_observations=len(obs),
            violations=nviol, rule=sc.rule, axes=core.jsonable(sc.axes),
            wall_s=round(t_sub(), 2))
        tot["evaluations"] += ev
        tot["nontrivial"] += nt
        tot["states"] += st
        tot["transitions"] += tr
        tot["impl"] += im
        if not a.quiet:
            print("[%s] %-26s points=%d evals=%d nontrivial=%d states=%d trans=%d obs=%d viol=%d %.1fs" % (
                prop, sc.name, len(sc.points), ev, nt, st, tr, len(obs), nviol, t_sub()))
            sys.stdout.flush()

    # ---- classify violations
    known_lines = {}
    new = []
    for (sub, _h), g in sorted(groups.items(), key=lambda kv: (kv[0][0], kv[0][1])):
        f = core.match_finding(findings, sub, g["v"]["tags"])
        if f is not None:
            d = known_lines.setdefault(f["id"], dict(f=f, count=0))
            d["count"] += g["count"]
        else:
            new.append(g)
    for fid, d in sorted(known_lines.items()):
        print("KNOWN-FINDING: property=%s %s [%s; %d matching cases this run]" % (
            prop, d["f"]["what"], fid, d["count"]))
    rc = 0
    unstable = []
    for i, g in enumerate(new):
        if i >= MAX_REPORT:
            print("... %d further violation signatures not listed" % (len(new) - MAX_REPORT))
            break
        path = _write_replay(prop, g["sub"], a.tier, seed, g["v"], g["point"],
                             prefix=dict(lo=g["lo"], index=g["index"]))
        if not a.no_confirm and i < 5:
            outs = _confirm(prop, path)
            if not (outs[0] == outs[1] and outs[0][0] == 1):
                unstable.append((path, outs))
                continue
        print("  %s %s x%d: %s" % (g["sub"], json.dumps(g["v"]["tags"], sort_keys=True),
                                  g["count"], g["v"]["detail"][:600]))
        print("VIOLATION property=%s replay=%s" % (prop, path))
        rc = 1
    for path, outs in unstable:
        print("HARNESS-ERROR: violation did not replay identically twice: %s %r" % (path, outs))
    for h in harness_errors[:10]:
        print("HARNESS-ERROR: %s" % h[:3000])
    if (unstable or harness_errors) and rc == 0:
        rc = 2

    # ---- evidence
    if not a.only:
        cov = dict(
            evaluations=tot["evaluations"],
            distinct_nontrivial=tot["nontrivial"],
            rule="; ".join("%s: %s" % (k, v["rule"]) for k, v in per_sub.items()),
            samples=samples,
            exhaustive=bool(exhaustive and not harness_errors),
            subchecks=per_sub,
            caps_hit=caps,
            known_findings_matched=sorted(known_lines),
            repo=core.REPO,
        )
        if level == "model_checking":
            cov.update(states=tot["states"], transitions=tot["transitions"],
                       traces_validated_against_impl=tot["impl"])
        ev = dict(
            property_id=prop, tier=a.tier, seed=seed, level=level, coverage=cov,
            assumptions=list(getattr(mod, "ASSUMPTIONS", [])),
            wall_s=round(timer(), 2), violations=len(new),
        )
        evdir = os.environ.get("VERIF_EVIDENCE_DIR") or os.path.join(core.HERE, "evidence")
        os.makedirs(evdir, exist_ok=True)
        with open(os.path.join(evdir, "%s.json" % prop), "w") as f:
            json.dump(ev, f, indent=1, sort_keys=True)
    if not a.quiet:
        print("[%s] tier=%s seed=%d evaluations=%d nontrivial=%d states=%d transitions=%d "
              "new_violation_signatures=%d known=%d exhaustive=%s wall=%.1fs" % (
                  prop, a.tier, seed, tot["evaluations"], tot["nontrivial"], tot["states"],
                  tot["transitions"], len(new), len(known_lines), exhaustive, timer()))
    return rc
