"""Crash-point injection on the REAL command-line process (engine F, used by C10).

Primary injector: `strace -f -P <output paths> -e trace=<call> -e inject=<call>:signal=SIG:when=K`
delivers SIGKILL (hard kill) or SIGINT (soft interrupt) to the real tool on entry to the K-th
`<call>` that touches one of the output paths.  A *counting run* (all syscalls on those paths,
`-y` so that descriptors are printed with their path) gives the ordered event list, so every
state-changing syscall on the output directory / manifest can be enumerated: K = 1..count for
each syscall name (`when=` counts per name).

Fallback (only if strace fails `probe()`): the same tool is started through this file as a
driver (`python crash.py --driver ...`) that wraps `torch.save` and the manifest `print` and
dies (`os._exit(137)` = hard, `KeyboardInterrupt` = soft) before / after the K-th call.

Every child runs in its own session; the whole process group is killed afterwards, so no
strace / python / DataLoader worker survives a run.
"""
import os
import re
import signal
import subprocess
import sys
import tempfile

PY = "/venv/bin/python"
TOOL = "/venv/bin/signals-to-torch-feat-dir"
STRACE = "/usr/bin/strace"

# syscalls that cannot change the durable state of a path (kill points there duplicate the
# state of the next state-changing call); everything else seen in the counting run is enumerated
READONLY = frozenset("""newfstatat fstat stat lstat statx lseek read pread64 readv ioctl fcntl access
faccessat faccessat2 readlink readlinkat getdents64 mmap munmap fadvise64 flock getxattr
lgetxattr fgetxattr statfs fstatfs""".split())

SIGNALS = {"KILL": "SIGKILL", "INT": "SIGINT"}


def repo_src():
    return os.path.join(os.environ.get("VERIF_REPO", "/repo"), "src")


def tool_env():
    env = dict(os.environ)
    env.update(PYTHONPATH=repo_src(), OMP_NUM_THREADS="1", MKL_NUM_THREADS="1",
               OPENBLAS_NUM_THREADS="1", PYTHONDONTWRITEBYTECODE="1", PYTHONHASHSEED="0")
    return env


def _child_setup():
    # a non-interactive parent may have SIGINT ignored; Python installs its handler only if not
    signal.signal(signal.SIGINT, signal.SIG_DFL)


_END = re.compile(r"^(\d+)\s+\+\+\+ (killed by (SIG\w+)|exited with (\d+))")


def _main_ended(log):
    """strace log: has the FIRST traced process (the tool itself) terminated?  -> rc or None"""
    try:
        with open(log) as f:
            text = f.read()
    except OSError:
        return None
    first = None
    for line in text.splitlines():
        pid = line.split(None, 1)[0] if line[:1].isdigit() else None
        if pid is None:
            continue
        if first is None:
            first = pid
        m = _END.match(line)
        if m and m.group(1) == first:
            if m.group(3):
                return -int(getattr(signal, m.group(3), signal.SIGKILL))
            return int(m.group(4))
    return None


def run(argv, timeout=300, env=None, watch=None, grace=10.0):
    """Run argv in its own session, wait, then kill the whole process group.
    watch: strace log; once it shows that the tool's main process is gone, orphaned children
    (DataLoader workers that strace would wait for) get `grace` seconds and are then killed.
    -> dict(rc=..., timed_out=bool, err=last stderr text, orphans_killed=bool)"""
    import time

    with tempfile.TemporaryFile() as errf:
        p = subprocess.Popen(argv, stdin=subprocess.DEVNULL, stdout=subprocess.DEVNULL, stderr=errf,
                             env=env or tool_env(), start_new_session=True, preexec_fn=_child_setup)
        timed_out, orphans, rc = False, False, None
        t0 = time.time()
        ended_at = None
        try:
            while True:
                try:
                    rc = p.wait(0.25 if watch else timeout)
                    break
                except subprocess.TimeoutExpired:
                    pass
                now = time.time()
                if watch and ended_at is None:
                    main_rc = _main_ended(watch)
                    if main_rc is not None:
                        ended_at = now
                if ended_at is not None and now - ended_at > grace:
                    orphans, rc = True, main_rc
                    break
                if now - t0 > timeout:
                    timed_out = True
                    break
        finally:
            try:
                os.killpg(p.pid, signal.SIGKILL)
            except (ProcessLookupError, PermissionError):
                pass
            try:
                p.wait(30)
            except Exception:
                pass
        if rc is None:
            rc = p.returncode
        errf.seek(0)
        err = errf.read().decode("utf-8", "replace")[-1500:]
    return dict(rc=rc, timed_out=timed_out, err=err, orphans_killed=orphans)


# ------------------------------------------------------------------ strace injector

def strace_argv(cmd, paths, trace=None, inject=None, out="/dev/null"):
    a = [STRACE, "-f", "-o", out]
    if out != "/dev/null":
        a += ["-y", "-s", "0"]
    for p in paths:
        a += ["-P", p]
    if trace:
        a += ["-e", "trace=" + trace]
    if inject:
        call, k, signame = inject
        a += ["-e", "inject=%s:signal=%s:when=%d" % (call, signame, int(k))]
    return a + list(cmd)


_LINE = re.compile(r"^(\d+)\s+(\w+)\((.*)$")


def parse_trace(text, paths):
    """-> ordered list of (syscall name, path it touched) for syscall ENTRIES"""
    ev = []
    for line in text.splitlines():
        m = _LINE.match(line)
        if not m or "resumed>" in line[:40]:
            continue
        call, rest = m.group(2), m.group(3)
        hit = None
        for p in sorted(paths, key=len, reverse=True):
            if ("<%s>" % p) in rest or ('"%s"' % p) in rest:
                hit = p
                break
        ev.append((call, hit))
    return ev


def probe():
    """Does ptrace + signal injection work here, and is the K-th call executed?
    -> dict(ok=bool, kill_executes_call=bool|None, detail=str)"""
    if not os.path.exists(STRACE):
        return dict(ok=False, kill_executes_call=None, detail="no strace binary")
    d = tempfile.mkdtemp(prefix="verif-")
    try:
        path = os.path.join(d, "f")
        code = ("import os,sys\nfd=os.open(sys.argv[1],os.O_WRONLY|os.O_CREAT,0o644)\n"
                "os.write(fd,b'a'); os.write(fd,b'b'); os.write(fd,b'c'); os.close(fd)\n")
        out = {}
        for name, signame in SIGNALS.items():
            if os.path.exists(path):
                os.unlink(path)
            r = run(strace_argv([PY, "-c", code, path], [path], "write", ("write", 2, signame)),
                    timeout=60)
            data = open(path, "rb").read() if os.path.exists(path) else None
            out[name] = (r["rc"], data, r["err"][-200:])
        # counting run
        tr = os.path.join(d, "trace")
        if os.path.exists(path):
            os.unlink(path)
        r = run(strace_argv([PY, "-c", code, path], [path], None, None, out=tr), timeout=60)
        ev = parse_trace(open(tr).read(), [path]) if os.path.exists(tr) else []
        nwrite = sum(1 for c, p in ev if c == "write" and p == path)
        ok = (out["KILL"][0] == -signal.SIGKILL and out["KILL"][1] in (b"a", b"ab")
              and out["INT"][0] not in (0, None) and out["INT"][1] in (b"a", b"ab")
              and r["rc"] == 0 and nwrite == 3)
        return dict(ok=bool(ok),
                    kill_executes_call=(out["KILL"][1] == b"ab") if ok else None,
                    int_executes_call=(out["INT"][1] == b"ab") if ok else None,
                    detail="KILL rc=%r file=%r; INT rc=%r file=%r; counting rc=%r writes=%d %s" % (
                        out["KILL"][0], out["KILL"][1], out["INT"][0], out["INT"][1], r["rc"], nwrite,
                        "" if ok else out["KILL"][2]))
    finally:
        import shutil

        shutil.rmtree(d, ignore_errors=True)


def strace_count(tool_args, paths, timeout=300, hashseed="0"):
    """counting run of the real tool: -> (run result, ordered events [(call, path)])"""
    d = tempfile.mkdtemp(prefix="verif-")
    try:
        tr = os.path.join(d, "trace")
        r = run(strace_argv([TOOL] + list(tool_args), paths, None, None, out=tr), timeout=timeout,
                env=user_env(hashseed))
        text = open(tr).read() if os.path.exists(tr) else ""
        return r, parse_trace(text, paths)
    finally:
        import shutil

        shutil.rmtree(d, ignore_errors=True)


def strace_kill(tool_args, paths, call, k, sig, timeout=300, hashseed="0"):
    d = tempfile.mkdtemp(prefix="verif-")
    try:
        log = os.path.join(d, "log")
        return run(strace_argv([TOOL] + list(tool_args), paths, call, (call, k, SIGNALS[sig]), out=log),
                   timeout=timeout, watch=log, env=user_env(hashseed))
    finally:
        import shutil

        shutil.rmtree(d, ignore_errors=True)


def plain(tool_args, timeout=300, hashseed="0"):
    """hashseed: str-hash salt of the interpreter (PYTHONHASHSEED); None = random, as a user has it"""
    return run([TOOL] + list(tool_args), timeout=timeout, env=user_env(hashseed))


# ------------------------------------------------------------------ separate interpreter processes

def user_env(hashseed=None):
    """environment of a tool run as a USER has it: like tool_env(), but str hashes are salted per
    interpreter process (PYTHONHASHSEED unset = 'random') or fixed to the given value.  ./check
    pins PYTHONHASHSEED=0 for its own determinism; a child inherits that unless told otherwise, and
    a pinned salt hides every dependence on hash() / set order of strings."""
    env = tool_env()
    if hashseed is None:
        env.pop("PYTHONHASHSEED", None)
    else:
        env["PYTHONHASHSEED"] = str(hashseed)
    return env


def python_run(code, argv=(), hashseed=None, timeout=300):
    """`python -c code argv...` in a fresh interpreter (own session) with user_env(hashseed)"""
    return run([PY, "-c", code] + list(argv), timeout=timeout, env=user_env(hashseed))


# ------------------------------------------------------------------ forked children (call histories)

def in_fork(fn, timeout=120):
    """fn() in a forked child: the child starts from a copy-on-write copy of THIS process (so
    whatever module-level state the parent has; a parent that never called the library gives every
    child the state 'just imported') and nothing it does survives it.
    -> ("ok", json-able value of fn()) | ("raised", text) | ("died", "signal N" | "exit N") |
       ("hang", "no result after T s")"""
    import json

    r, w = os.pipe()
    sys.stdout.flush()
    sys.stderr.flush()
    pid = os.fork()
    if pid == 0:
        code = 3
        try:
            os.close(r)
            nul = os.open(os.devnull, os.O_WRONLY)      # native readers log to fd 1 / 2
            os.dup2(nul, 1)
            os.dup2(nul, 2)
            signal.signal(signal.SIGALRM, signal.SIG_DFL)
            signal.alarm(int(timeout))
            try:
                out = ("ok", fn())
            except BaseException:
                import traceback

                out = ("raised", traceback.format_exc()[-3000:])
            data = json.dumps(out).encode()
            while data:
                n = os.write(w, data)
                data = data[n:]
            code = 0
        finally:
            os._exit(code)
    os.close(w)
    chunks = []
    while True:
        c = os.read(r, 1 << 16)
        if not c:
            break
        chunks.append(c)
    os.close(r)
    _, status = os.waitpid(pid, 0)
    if os.WIFSIGNALED(status):
        if os.WTERMSIG(status) == signal.SIGALRM:
            return ("hang", "no result after %d s" % timeout)
        return ("died", "signal %d" % os.WTERMSIG(status))
    if os.WEXITSTATUS(status) != 0:
        return ("died", "exit %d" % os.WEXITSTATUS(status))
    out = json.loads(b"".join(chunks).decode())
    return tuple(out)


def _died(q, seq):
    return dict(viol=[[dict(what="history_interpreter_" + q[0]),
                       "history %r: the interpreter %s (%s)" % (seq, q[0], q[1])]], obs=[q[0]])


def explore_histories(seqs, child, run_case):
    """seqs: list of call sequences (json-able lists); child(seq) -> dict(viol=[[tags, detail]], obs=[..])
    runs one history against the library and judges it.

    All histories of `seqs` are run one after the other in ONE forked child (state at its start: 'just
    imported', provided the parent never calls the library).  A violation is always reported with a case
    that replays EXACTLY what was executed:
      dict(kind="history", calls=seq)          the history alone, in its own forked child - used for the
                                               first violation of each signature, after re-running the
                                               history alone and seeing the same signature again;
      dict(run_case, kind="history_run", upto=k)   histories 0..k of the same run, in one forked child -
                                               for every other violation, and for those that need what the
                                               earlier histories of the run left behind.
    If the interpreter dies or hangs anywhere in the run, every history is run in its own child instead.
    -> (violations, per-history results, forks)"""
    from . import core

    forks = 1
    r = in_fork(lambda: [child(s) for s in seqs], timeout=900)
    if r[0] == "raised":
        raise core.HarnessError("history child: %s" % r[1])
    isolated = r[0] != "ok"
    if isolated:
        results = []
        for s in seqs:
            q = in_fork(lambda: child(s), timeout=60)
            forks += 1
            if q[0] == "raised":
                raise core.HarnessError("history child: %s" % q[1])
            results.append(q[1] if q[0] == "ok" else _died(q, s))
    else:
        results = r[1]
    viol, seen = [], set()
    for k, (s, res) in enumerate(zip(seqs, results)):
        for tags, detail in res["viol"]:
            h = core.sig_hash(tags)
            short = isolated
            if not isolated and h not in seen:
                seen.add(h)
                q = in_fork(lambda: child(s), timeout=60)
                forks += 1
                short = q[0] == "ok" and any(core.sig_hash(t) == h for t, _ in q[1]["viol"])
            if short:
                case = dict(kind="history", calls=s)
            else:
                case = dict(run_case, kind="history_run", upto=k)
                detail = "[history %d of a run of %d histories in one interpreter] %s" % (k + 1, len(seqs), detail)
            viol.append(core.violation(tags, detail, case))
    return viol, results, forks


def replay_history(case, seqs_of, child):
    """case as produced by explore_histories; seqs_of(case) -> the run's list of sequences"""
    from . import core

    if case["kind"] == "history":
        seq = case["calls"]
        q = in_fork(lambda: child(seq), timeout=60)
        res = q[1] if q[0] == "ok" else None
    else:
        seqs = seqs_of(case)[:case["upto"] + 1]
        seq = seqs[-1]
        q = in_fork(lambda: [child(s) for s in seqs], timeout=900)
        res = q[1][-1] if q[0] == "ok" else None
    if q[0] == "raised":
        raise core.HarnessError("history child: %s" % q[1])
    if res is None:
        res = _died(q, seq)
    return [core.violation(t, d, case) for t, d in res["viol"]]


# ------------------------------------------------------------------ python-level fallback

PY_POINTS = ("before_save", "after_save", "after_print")


def py_count(tool_args, timeout=300, hashseed="0"):
    """-> (run result, events [(point, path)]) with the driver in counting mode"""
    d = tempfile.mkdtemp(prefix="verif-")
    try:
        log = os.path.join(d, "log")
        r = run([PY, os.path.abspath(__file__), "--driver", "count", "0", "KILL", log, "--"]
                + list(tool_args), timeout=timeout, env=user_env(hashseed))
        ev = []
        if os.path.exists(log):
            for line in open(log):
                pt, _, path = line.rstrip("\n").partition(" ")
                ev.append((pt, path or None))
        return r, ev
    finally:
        import shutil

        shutil.rmtree(d, ignore_errors=True)


def py_kill(tool_args, point, k, sig, timeout=300, hashseed="0"):
    return run([PY, os.path.abspath(__file__), "--driver", point, str(int(k)), sig, "-", "--"]
               + list(tool_args), timeout=timeout, env=user_env(hashseed))


def _driver(argv):
    point, k, sig, log = argv[0], int(argv[1]), argv[2], argv[3]
    args = argv[5:]
    import torch
    import pydrobert.speech.command_line as cl

    counts = dict.fromkeys(PY_POINTS, 0)
    last = [None]

    def hit(pt):
        counts[pt] += 1
        if point == "count":
            with open(log, "a") as f:
                f.write("%s %s\n" % (pt, last[0] or ""))
        elif pt == point and counts[pt] == k:
            if sig == "KILL":
                os._exit(137)
            raise KeyboardInterrupt()

    orig_save = torch.save

    def save(obj, f, *a, **kw):
        last[0] = f if isinstance(f, str) else None
        hit("before_save")
        r = orig_save(obj, f, *a, **kw)
        hit("after_save")
        return r

    def printer(*a, **kw):
        r = print(*a, **kw)
        if kw.get("file") not in (None, sys.stdout, sys.stderr):
            hit("after_print")
        return r

    torch.save = save
    cl.print = printer   # module-level name shadows the builtin inside command_line
    sys.exit(cl.signals_to_torch_feat_dir(args))


def tool_batch(jobs, hashseed, salt, timeout=600):
    """jobs: [dict(tool="kaldi"|"torch", args=[...])].  All jobs are run one after the other by the
    tools' own entry functions inside ONE fresh interpreter whose str-hash salt is `hashseed` (None =
    random, as a user has it).  Before every job the global numpy / torch generators are left in a state
    that depends on (salt, job index), so that only --seed can make two interpreters agree.
    -> (run result, [["ok", rc] | ["exit", code] | ["exc", type, text]] or None)"""
    import json

    d = tempfile.mkdtemp(prefix="verif-")
    try:
        jf, rf = os.path.join(d, "jobs.json"), os.path.join(d, "results.json")
        with open(jf, "w") as f:
            json.dump(jobs, f)
        r = run([PY, os.path.abspath(__file__), "--tool-batch", jf, rf, str(int(salt))],
                timeout=timeout, env=user_env(hashseed))
        res = None
        if os.path.exists(rf):
            with open(rf) as f:
                res = json.load(f)
        return r, res
    finally:
        import shutil

        shutil.rmtree(d, ignore_errors=True)


def _tool_batch(argv):
    import json
    import logging

    import numpy as np
    import torch

    import pydrobert.speech.command_line as cl

    with open(argv[0]) as f:
        jobs = json.load(f)
    salt = int(argv[2])
    torch.set_num_threads(1)
    out = []
    for k, job in enumerate(jobs):
        np.random.seed(100003 * salt + k)
        torch.manual_seed(100003 * salt + k + 50000)
        fn = cl.compute_feats_from_kaldi_tables if job["tool"] == "kaldi" else cl.signals_to_torch_feat_dir
        try:
            out.append(["ok", fn(list(job["args"]))])
        except SystemExit as e:
            out.append(["exit", e.code if isinstance(e.code, (int, type(None))) else str(e.code)])
        except Exception as e:
            out.append(["exc", type(e).__name__, str(e)[:300]])
        lg = logging.getLogger(sys.argv[0])
        for h in list(lg.handlers):      # the tools add one stream handler per call
            lg.removeHandler(h)
    with open(argv[1], "w") as f:
        json.dump(out, f)


if __name__ == "__main__":
    if len(sys.argv) > 1 and sys.argv[1] == "--driver":
        _driver(sys.argv[2:])
    elif len(sys.argv) > 1 and sys.argv[1] == "--tool-batch":
        _tool_batch(sys.argv[2:])
    else:
        print(probe())
