"""setup_cmd: offline sanity of the framework (nothing is built or downloaded).

* the repository imports from its working tree
* MANIFEST.json and every evidence/*.json validate against the schemas (python3-vt's jsonschema)
* reference models agree with brute force on tiny cases (mc.refs.* selftests, when present)
"""
import glob
import json
import os
import subprocess
import sys

HERE = os.path.dirname(os.path.dirname(os.path.abspath(__file__)))

VALIDATE = r"""
import json, sys, jsonschema
schema = json.load(open(sys.argv[1]))
bad = 0
for p in sys.argv[2:]:
    try:
        jsonschema.validate(json.load(open(p)), schema)
    except Exception as e:
        bad += 1
        print("INVALID", p, str(e)[:300])
sys.exit(1 if bad else 0)
"""


def validate(schema, files):
    if not files:
        return 0
    return subprocess.run(["python3-vt", "-c", VALIDATE, schema] + files).returncode


def main():
    sys.path.insert(0, HERE)
    from mc import core

    core.setup_repo_path()
    import pydrobert.speech.compute  # noqa: F401

    rc = 0
    rc |= validate("/root/.vp/MANIFEST.schema.json", [os.path.join(HERE, "MANIFEST.json")])
    rc |= validate("/root/.vp/EVIDENCE.schema.json",
                   sorted(glob.glob(os.path.join(HERE, "evidence", "C*.json"))))
    json.load(open(os.path.join(HERE, "known_findings.json")))
    import importlib
    import pkgutil
    import mc.refs

    for m in pkgutil.iter_modules(mc.refs.__path__):
        mod = importlib.import_module("mc.refs." + m.name)
        if hasattr(mod, "selftest"):
            mod.selftest()
            print("refs.%s selftest ok" % m.name)
    print("selftest", "FAILED" if rc else "ok")
    return rc


if __name__ == "__main__":
    sys.exit(main())
