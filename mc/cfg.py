"""Build real pydrobert-speech objects from small JSON-able configurations.

rate 1000 => milliseconds == samples, so frames are a handful of samples long.
"""
import numpy as np

RATE = 1000

# name -> bank configuration (JSON-able, goes through the library's own alias factory)
TINY_BANKS = {
    # real, compactly supported in frequency
    "tri": {"name": "tri", "scaling_function": "linear", "num_filts": 2, "low_hz": 0.0,
            "sampling_rate": RATE},
    "fbank": {"name": "fbank", "num_filts": 3, "low_hz": 0.0, "sampling_rate": RATE},
    # analytic, compact
    "tri_an": {"name": "tri", "scaling_function": "mel", "num_filts": 2, "low_hz": 0.0,
               "sampling_rate": RATE, "analytic": True},
    # complex, effectively compact; at this rate they wrap below 0 Hz / past Nyquist
    "gabor": {"name": "gabor", "scaling_function": "linear", "num_filts": 2, "low_hz": 0.0,
              "sampling_rate": RATE},
    "gabor3": {"name": "gabor", "scaling_function": "mel", "num_filts": 3, "low_hz": 0.0,
               "sampling_rate": RATE},
    "gammatone": {"name": "gammatone", "scaling_function": "linear", "num_filts": 2,
                  "low_hz": 0.0, "sampling_rate": RATE},
    "gammatone_mc": {"name": "gammatone", "scaling_function": "linear", "num_filts": 2,
                     "low_hz": 0.0, "sampling_rate": RATE, "max_centered": True},
}


def make_scale(s):
    """explicit construction (alias resolution is C08's business, not used here)"""
    from pydrobert.speech import scales

    if isinstance(s, str):
        s = {"name": s}
    s = dict(s)
    name = s.pop("name")
    if name == "linear":
        s.setdefault("low_hz", 0.0)
        return scales.LinearScaling(**s)
    if name == "octave":
        s.setdefault("low_hz", 20.0)
        return scales.OctaveScaling(**s)
    return {"mel": scales.MelScaling, "bark": scales.BarkScaling}[name](**s)


def make_bank(b):
    from pydrobert.speech import filters

    if isinstance(b, str):
        b = TINY_BANKS[b]
    b = dict(b)
    name = b.pop("name")
    cls = {"tri": filters.TriangularOverlappingFilterBank, "fbank": filters.Fbank,
           "gabor": filters.GaborFilterBank,
           "gammatone": filters.ComplexGammatoneFilterBank}[name]
    if "scaling_function" in b:
        b["scaling_function"] = make_scale(b["scaling_function"])
    return cls(**b)


def make_window(w):
    from pydrobert.speech import filters

    if w is None:
        return None
    if isinstance(w, str):
        w = {"name": w}
    w = dict(w)
    name = w.pop("name")
    cls = {"hamming": filters.HammingWindow, "hann": filters.HannWindow,
           "bartlett": filters.BartlettWindow, "blackman": filters.BlackmanWindow,
           "gamma": filters.GammaWindow}[name]
    return cls(**w)


def make_computer(c):
    """c: dict(kind='stft'|'si', bank=, L=, S=, style=, window=, pad=, log=, power=,
    energy=, kaldi=).  L and S are in samples; the bank's rate converts them."""
    from pydrobert.speech import compute

    bank = c["bank_obj"] if c.get("bank_obj") is not None else make_bank(c["bank"])
    rate = bank.sampling_rate
    ms = lambda n: (n + 0.5) * 1000.0 / rate  # robust against int() truncation  # noqa
    kw = dict(
        frame_shift_ms=ms(c["S"]),
        frame_style=c.get("style"),
        include_energy=bool(c.get("energy", False)),
        pad_to_nearest_power_of_two=bool(c.get("pad", True)),
        window_function=make_window(c.get("window")),
        use_log=bool(c.get("log", True)),
        use_power=bool(c.get("power", False)),
    )
    if c["kind"] == "stft":
        if c.get("L") is not None:
            kw["frame_length_ms"] = ms(c["L"])
        kw["kaldi_shift"] = bool(c.get("kaldi", False))
    if c.get("spelling"):
        # the same options in another spelling: flags as 0/1 or numpy bools, durations as numpy floats
        import numpy as np
        conv = {"int": int, "npbool": np.bool_}[c["spelling"]]
        for k in ("include_energy", "pad_to_nearest_power_of_two", "use_log", "use_power", "kaldi_shift"):
            if k in kw:
                kw[k] = conv(kw[k])
        for k in ("frame_shift_ms", "frame_length_ms"):
            if k in kw:
                kw[k] = np.float64(kw[k])
    if c["kind"] == "stft":
        comp = compute.STFTFrameComputer(bank, **kw)
        if c.get("L") is not None and comp.frame_length != c["L"]:
            raise AssertionError("frame length %r != %r" % (comp.frame_length, c["L"]))
    else:
        comp = compute.SIFrameComputer(bank, **kw)
    if comp.frame_shift != c["S"]:
        raise AssertionError("frame shift %r != %r" % (comp.frame_shift, c["S"]))
    return comp


def si_domain_ok(comp):
    """C01/C03 precondition for short-integration computers."""
    sup = comp.bank.supports
    S = comp.frame_shift
    if comp.frame_style == "causal":
        return S < max(r for _, r in sup)
    return S < max(-(-(r - l) // 2) for l, r in sup)


def describe(c):
    return ",".join("%s=%s" % (k, c[k]) for k in sorted(c))
